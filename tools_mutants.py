#!/usr/bin/env python3
"""Sensitivity driver: applies each mutation of mutants.json to /repo (uncommitted), optionally runs
the 42 baseline tests on it, runs the property's quick check, records the outcome, reverts.
usage: tools_mutants.py [--tests] [--only M01,M02] [--out SENSITIVITY_RAW.json]
Never run while /repo has uncommitted changes."""
import json, subprocess, sys, time, os

def sh(cmd, cwd=None, timeout=1200):
    p = subprocess.run(cmd, shell=True, executable='/bin/bash', cwd=cwd, capture_output=True, text=True, timeout=timeout)
    return p.returncode, p.stdout + p.stderr

def main():
    args = sys.argv[1:]
    tests = '--tests' in args
    only = None
    if '--only' in args:
        only = set(args[args.index('--only') + 1].split(','))
    out = '/verif/SENSITIVITY_RAW.json'
    if '--out' in args:
        out = args[args.index('--out') + 1]
    muts = json.load(open('/verif/mutants.json'))
    rc, o = sh('git status --porcelain', cwd='/repo')
    if o.strip():
        print('repo dirty; refusing'); sys.exit(2)
    results = []
    if os.path.exists(out):
        results = json.load(open(out))
    done = {r['id'] for r in results}
    for m in muts:
        if only and m['id'] not in only: continue
        if not only and m['id'] in done: continue
        path = '/repo/' + m['file']
        src = open(path).read()
        if src.count(m['old']) < 1:
            print(m['id'], 'PATTERN NOT FOUND'); results.append({'id': m['id'], 'error': 'pattern not found'}); continue
        open(path, 'w').write(src.replace(m['old'], m['new'], 1))
        rec = {'id': m['id'], 'check': m['check'], 'what': m['what'], 'expect': m.get('expect', 'fail')}
        prev = [r for r in results if r.get('id') == m['id']]
        if prev and 'baseline_tests' in prev[0] and not tests:
            rec['baseline_tests'] = prev[0]['baseline_tests']
        try:
            if tests:
                rc, o = sh('timeout -k 5 240 cargo test --offline 2>&1 | grep -E "^test result|error(\\[|:)" ; echo "rc=${PIPESTATUS[0]}"', cwd='/repo')
                failed = ('FAILED' in o) or ('error' in o) or ('failed' in o and ' 0 failed' not in o.replace('; 0 failed', ' 0 failed'))
                bad = [l for l in o.splitlines() if 'test result' in l and '0 failed' not in l]
                rec['baseline_tests'] = 'hang (killed after 240 s)' if 'rc=124' in o else ('fail' if (bad or 'error' in o) else 'pass')
            sh("for p in $(pgrep -f '^/repo/target/debug/deps/'); do kill -9 $p; done")
            t0 = time.time()
            rc, o = sh(f'./check {m["check"]} --tier quick --budget-s 60', cwd='/verif')
            rec['exit'] = rc
            rec['wall_s'] = round(time.time() - t0, 1)
            viol = [l.strip() for l in o.splitlines() if l.strip().startswith('rule=') or 'C19.' in l]
            rec['first_violation'] = viol[0][:300] if viol else ''
            runs = [l for l in o.splitlines() if l.startswith('runs=') or l.startswith('C19 tier')]
            rec['summary'] = runs[-1][:200] if runs else o[-200:]
        finally:
            open(path, 'w').write(src)
        sh('git checkout -- .', cwd='/repo')
        ok = (rec['exit'] == 1) if rec['expect'] == 'fail' else (rec['exit'] == 0)
        rec['as_expected'] = ok
        print(m['id'], m['check'], 'exit', rec['exit'], 'expected' if ok else 'UNEXPECTED', rec.get('baseline_tests', ''), rec['first_violation'][:120])
        results = [r for r in results if r['id'] != m['id']] + [rec]
        json.dump(results, open(out, 'w'), indent=1)

if __name__ == '__main__':
    main()
