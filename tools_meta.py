#!/usr/bin/env python3
import json,sys
# usage: tools_meta.py <id> <property> <needs> <detected_by> <result-line>
i,prop,needs,det,res=sys.argv[1:6]
meta={"id":i,"property":prop,"source":"independent sub-agent given only the property text and a scratch worktree",
 "needs_to_manifest":needs,
 "confirmed":"scratch worktree: demonstration passes without the patch; with the patch the 42 existing tests pass and the demonstration fails (tools_seeded.sh)",
 "checks_run":f"git -C /repo apply patch.diff; ./check {det}; git -C /repo checkout -- .  (tools_runseeded.sh)",
 "result":res}
json.dump(meta,open(f'/verif/seeded/{i}/meta.json','w'),indent=1)
