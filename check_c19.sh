#!/bin/bash
# C19: FlowControl under shuttle (quick + thorough) and Miri (thorough). Args: <tier> <replay-file-or-empty>
set -u
TIER="${1:-quick}"; REPLAY="${2:-}"
export CARGO_NET_OFFLINE=true
HERE="$(cd "$(dirname "$0")" && pwd)"
export VERIF_HOME="$HERE"
# Background exploration runs (vp run --with-repo) may point the build at a snapshot of /repo; registered checks never set this.
if [ -n "${DELTIO_REPO:-}" ] && [ "$DELTIO_REPO" != "/repo" ]; then sed -i "s#path = \"/repo\"#path = \"$DELTIO_REPO\"#" "$HERE/sim/Cargo.toml" "$HERE/fc-shuttle/Cargo.toml"; fi
cd "$HERE/fc-shuttle" || exit 2
if ! cargo build --offline -q 2> "$HERE/fc-shuttle/build.log"; then
  echo "HARNESS-ERROR: building the C19 harness against /repo failed"; tail -30 "$HERE/fc-shuttle/build.log"; exit 2
fi
BIN="$HERE/fc-shuttle/target/debug/fc-shuttle"
if [ -n "$REPLAY" ]; then exec "$BIN" replay --file "$REPLAY"; fi
exec "$BIN" run --tier "$TIER"
