#!/bin/bash
# usage: tools_seeded.sh <worktree> <seeded-subdir> <dest-id>
# Confirms an independently written property-breaking change in a scratch worktree:
#   without the patch the demonstration passes; with it the 42 existing tests pass and the demonstration fails.
# Then copies it to /verif/seeded/<dest-id>/ (meta.json is completed by hand).
set -u
WT="$1"; SUB="$2"; DEST="$3"
cd "$WT" || exit 2
git checkout -q -- . ; git clean -fdq tests/ 2>/dev/null
S="$WT/_seeded/$SUB"
DEMO=$(ls "$S"/*.rs 2>/dev/null | head -1)
[ -z "$DEMO" ] && { echo "no demo .rs in $S"; ls "$S"; exit 2; }
NAME=$(basename "$DEMO" .rs)
cp "$DEMO" "tests/$NAME.rs"
echo "== without patch: demo"
cargo test --offline --test "$NAME" 2>&1 | grep -E "^test result|error(\[|:)" | head -3
git apply --check "$S/patch.diff" || { echo "patch does not apply"; exit 2; }
git apply "$S/patch.diff"
echo "== with patch: existing suite (demo excluded)"
mv "tests/$NAME.rs" /tmp/$NAME.rs.hold.$$
cargo test --offline 2>&1 | grep -E "^test result" | awk '{p+=$4; f+=$6} END {print "passed="p" failed="f}'
mv /tmp/$NAME.rs.hold.$$ "tests/$NAME.rs"
echo "== with patch: demo"
cargo test --offline --test "$NAME" 2>&1 | grep -E "^test result|error(\[|:)" | head -3
git checkout -q -- . ; rm -f "tests/$NAME.rs"
mkdir -p "/verif/seeded/$DEST"
cp "$S/patch.diff" "/verif/seeded/$DEST/patch.diff"
cp "$DEMO" "/verif/seeded/$DEST/"
[ -f "$S/NOTES.md" ] && cp "$S/NOTES.md" "/verif/seeded/$DEST/NOTES.md"
git status --short | head -3
