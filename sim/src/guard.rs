//! `Guarded`: wraps a call future so the harness can (a) drop it at its k-th *real* suspension,
//! (b) cancel it on request at a real suspension, (c) catch panics of the in-process handler.
//! A `Pending` that was caused by a schedule point (deltio::verif::point) does not count: the
//! real code has no suspension there, so the caller's future could not be dropped there.
use std::cell::{Cell, RefCell};
use std::future::Future;
use std::panic::{catch_unwind, AssertUnwindSafe};
use std::pin::Pin;
use std::rc::Rc;
use std::task::{Context, Poll, Waker};

#[derive(Clone, Default)]
pub struct CancelHandle {
    flag: Rc<Cell<bool>>,
    waker: Rc<RefCell<Option<Waker>>>,
}

impl CancelHandle {
    pub fn new() -> Self {
        Self::default()
    }
    pub fn cancel(&self) {
        self.flag.set(true);
        if let Some(w) = self.waker.borrow_mut().take() {
            w.wake();
        }
    }
    pub fn is_cancelled(&self) -> bool {
        self.flag.get()
    }
}

pub enum GuardOut<T> {
    Done(T),
    /// Dropped at this many real suspensions.
    Abandoned(u32),
    Panic(String),
}

pub struct Guarded<F: Future> {
    inner: Option<Pin<Box<F>>>,
    real_suspensions: u32,
    abandon_at: u32,
    cancel: Option<CancelHandle>,
    last_pending_real: bool,
}

impl<F: Future> Guarded<F> {
    pub fn new(fut: F, abandon_at: u32, cancel: Option<CancelHandle>) -> Self {
        Guarded {
            inner: Some(Box::pin(fut)),
            real_suspensions: 0,
            abandon_at,
            cancel,
            last_pending_real: false,
        }
    }
}

impl<F: Future> Unpin for Guarded<F> {}

impl<F: Future> Future for Guarded<F> {
    type Output = GuardOut<F::Output>;

    fn poll(mut self: Pin<&mut Self>, cx: &mut Context<'_>) -> Poll<Self::Output> {
        let this = &mut *self;
        if let Some(c) = &this.cancel {
            *c.waker.borrow_mut() = Some(cx.waker().clone());
            if c.flag.get() && this.last_pending_real {
                this.inner = None;
                return Poll::Ready(GuardOut::Abandoned(this.real_suspensions));
            }
        }
        let inner = match this.inner.as_mut() {
            Some(i) => i,
            None => return Poll::Ready(GuardOut::Abandoned(this.real_suspensions)),
        };
        let _ = deltio::verif::take_point_pending();
        let polled = catch_unwind(AssertUnwindSafe(|| inner.as_mut().poll(cx)));
        match polled {
            Err(payload) => {
                // Do not run the inner future's destructor paths twice; leak it.
                std::mem::forget(this.inner.take());
                let msg = if let Some(s) = payload.downcast_ref::<&str>() {
                    s.to_string()
                } else if let Some(s) = payload.downcast_ref::<String>() {
                    s.clone()
                } else {
                    "panic".to_string()
                };
                Poll::Ready(GuardOut::Panic(msg))
            }
            Ok(Poll::Ready(v)) => {
                this.inner = None;
                Poll::Ready(GuardOut::Done(v))
            }
            Ok(Poll::Pending) => {
                let by_point = deltio::verif::take_point_pending();
                this.last_pending_real = !by_point;
                if !by_point {
                    this.real_suspensions += 1;
                    let cancelled = this.cancel.as_ref().map(|c| c.flag.get()).unwrap_or(false);
                    if (this.abandon_at != 0 && this.real_suspensions >= this.abandon_at) || cancelled {
                        this.inner = None;
                        return Poll::Ready(GuardOut::Abandoned(this.real_suspensions));
                    }
                }
                Poll::Pending
            }
        }
    }
}
