//! Parent: spawns one child process per run (<= jobs in flight), collects the result lines,
//! minimises violations, matches known findings, writes replay files and evidence.
use crate::checks;
use crate::oracle::Violation;
use crate::plan::*;
use crate::rng::{fnv_str, mix3};
use crate::runner::RunResult;
use serde::{Deserialize, Serialize};
use std::collections::{BTreeMap, BTreeSet, HashSet};
use std::io::Read;
use std::process::{Command, Stdio};
use std::sync::atomic::{AtomicBool, AtomicU64, Ordering};
use std::sync::{Arc, Mutex};
use std::time::{Duration, Instant};

/// Where evidence and replays go: the directory of the check script (VERIF_HOME), /verif by default.
fn verif_dir() -> String {
    std::env::var("VERIF_HOME").unwrap_or_else(|_| "/verif".to_string())
}
/// A run normally takes milliseconds; one that needs this long of real time is reported as a crash-class violation.
const CHILD_WALL_CAP_S: u64 = 40;
/// Wall-clock budget of one minimisation.
const MINIMISE_BUDGET_S: u64 = 150;

fn arg<'a>(args: &'a [String], name: &str) -> Option<&'a str> {
    args.iter().position(|a| a == name).and_then(|i| args.get(i + 1)).map(|s| s.as_str())
}

pub fn run_seed(verif_seed: u64, check: &str, i: u64) -> u64 {
    // keep seeds inside the range JSON integers survive (2^53)
    mix3(verif_seed, fnv_str(check), i) >> 12
}

#[derive(Debug)]
pub enum ChildOut {
    Ok(RunResult),
    /// Killed by a signal / non-zero exit / wall-clock cap / unparsable output.
    Crash(String),
    /// The run exhausted its event budget while virtual time kept advancing (a long legitimate
    /// run): inconclusive, neither evidence nor a violation.
    Truncated,
}

fn run_child(argv: &[String], wall_cap: Duration) -> ChildOut {
    let exe = std::env::current_exe().expect("current exe");
    let mut child = match Command::new(exe).args(argv).stdin(Stdio::null()).stdout(Stdio::piped()).stderr(Stdio::piped()).spawn() {
        Ok(c) => c,
        Err(e) => return ChildOut::Crash(format!("spawn failed: {e}")),
    };
    let mut stdout = child.stdout.take().unwrap();
    let mut stderr = child.stderr.take().unwrap();
    let out_thread = std::thread::spawn(move || {
        let mut s = String::new();
        let _ = stdout.read_to_string(&mut s);
        s
    });
    let err_thread = std::thread::spawn(move || {
        let mut s = String::new();
        let _ = stderr.read_to_string(&mut s);
        s
    });
    let start = Instant::now();
    let status = loop {
        match child.try_wait() {
            Ok(Some(st)) => break Some(st),
            Ok(None) => {
                if start.elapsed() > wall_cap {
                    let _ = child.kill();
                    let _ = child.wait();
                    break None;
                }
                std::thread::sleep(Duration::from_millis(2));
            }
            Err(_) => break None,
        }
    };
    let out = out_thread.join().unwrap_or_default();
    let err = err_thread.join().unwrap_or_default();
    match status {
        None => ChildOut::Crash(format!("wall-clock cap of {:?} exceeded", wall_cap)),
        Some(st) if st.code() == Some(4) => ChildOut::Truncated,
        Some(st) if !st.success() => ChildOut::Crash(format!("child exited with {st}: {}", err.lines().last().unwrap_or(""))),
        Some(_) => match out.lines().last().map(serde_json::from_str::<RunResult>) {
            Some(Ok(r)) => ChildOut::Ok(r),
            _ => ChildOut::Crash(format!("unparsable child output: {}", out.chars().take(200).collect::<String>())),
        },
    }
}

fn run_plan_file(check: &str, path: &str) -> ChildOut {
    run_child(&["run".into(), "--check".into(), check.into(), "--plan".into(), path.into()], Duration::from_secs(CHILD_WALL_CAP_S))
}

fn run_plan(check: &str, plan: &Plan, tag: &str) -> ChildOut {
    let dir = format!("{}/replays", verif_dir());
    let _ = std::fs::create_dir_all(&dir);
    let path = format!("{dir}/tmp-{}-{}.json", std::process::id(), tag);
    std::fs::write(&path, serde_json::to_string(plan).unwrap()).expect("write tmp plan");
    let r = run_plan_file(check, &path);
    let _ = std::fs::remove_file(&path);
    r
}

// -------------------------------------------------------------------------------------------------
// Known findings
// -------------------------------------------------------------------------------------------------

#[derive(Serialize, Deserialize, Clone, Debug)]
pub struct KnownFinding {
    pub property: String,
    /// "known" entries suppress; "fixed" entries are documentation only.
    pub status: String,
    pub rule: String,
    /// Substring that the violation key must contain.
    #[serde(default)]
    pub key_contains: String,
    /// Operation kinds that must all occur in the (minimised) plan.
    #[serde(default)]
    pub requires_ops: Vec<String>,
    /// The plan must have at least this many concurrent request sources (scripts of its
    /// widest phase plus all background pulls and streams).
    #[serde(default)]
    pub min_request_sources: usize,
    #[serde(default)]
    pub commit: String,
    pub text: String,
}

fn load_known() -> Vec<KnownFinding> {
    let path = format!("{}/known_findings.json", verif_dir());
    match std::fs::read_to_string(&path) {
        Ok(t) => serde_json::from_str::<serde_json::Value>(&t)
            .ok()
            .and_then(|v| v.get("findings").cloned())
            .and_then(|f| serde_json::from_value(f).ok())
            .unwrap_or_default(),
        Err(_) => vec![],
    }
}

fn op_kind(op: &Op) -> &'static str {
    match op {
        Op::Nop => "Nop",
        Op::CreateTopic { .. } => "CreateTopic",
        Op::DeleteTopic { .. } => "DeleteTopic",
        Op::GetTopic { .. } => "GetTopic",
        Op::CreateSub { .. } => "CreateSub",
        Op::DeleteSub { .. } => "DeleteSub",
        Op::GetSub { .. } => "GetSub",
        Op::ListPage { .. } => "ListPage",
        Op::Walk { .. } => "Walk",
        Op::Publish { .. } => "Publish",
        Op::PublishMany { .. } => "Publish",
        Op::Pull { .. } => "Pull",
        Op::DrainPull { .. } => "DrainPull",
        Op::PullBg { .. } => "PullBg",
        Op::CancelBg { .. } => "CancelBg",
        Op::Ack { .. } => "Ack",
        Op::ModAck { .. } => "ModAck",
        Op::StreamOpen { .. } => "StreamOpen",
        Op::StreamSend { .. } => "StreamSend",
        Op::SleepUntilLeaseEnd { .. } => "SleepUntilLeaseEnd",
        Op::SleepUntilMultiple { .. } => "SleepUntilMultiple",
        Op::StreamCloseReq { .. } => "StreamCloseReq",
        Op::StreamDrop { .. } => "StreamDrop",
        Op::EndpointFaultsOff => "EndpointFaultsOff",
    }
}

fn plan_op_kinds(plan: &Plan) -> BTreeSet<String> {
    let mut s = BTreeSet::new();
    for ph in &plan.phases {
        for sc in &ph.scripts {
            for st in sc {
                s.insert(op_kind(&st.op).to_string());
                if st.abandon_at > 0 || st.abandon_after_us > 0 {
                    s.insert(format!("abandoned:{}", op_kind(&st.op)));
                }
            }
        }
    }
    s
}

fn match_known<'a>(known: &'a [KnownFinding], check: &str, v: &Violation, plan: &Plan) -> Option<&'a KnownFinding> {
    let kinds = plan_op_kinds(plan);
    let widest = plan.phases.iter().map(|p| p.scripts.len()).max().unwrap_or(0);
    let background = plan.phases.iter().flat_map(|p| p.scripts.iter()).flat_map(|s| s.iter()).filter(|st| matches!(st.op, Op::PullBg { .. } | Op::StreamOpen { .. })).count();
    let sources = widest + background;
    known.iter().find(|k| {
        k.status == "known" && k.property == check && k.rule == v.rule && v.key.contains(&k.key_contains) && k.requires_ops.iter().all(|o| kinds.contains(o)) && sources >= k.min_request_sources
    })
}

pub fn plan_digest(plan: &Plan) -> serde_json::Value {
    let phases: Vec<serde_json::Value> = plan
        .phases
        .iter()
        .map(|ph| {
            let scripts: Vec<String> = ph
                .scripts
                .iter()
                .map(|sc| {
                    sc.iter()
                        .map(|st| {
                            let mut s = op_kind(&st.op).to_string();
                            if st.delay_us > 0 {
                                s = format!("+{}us {}", st.delay_us, s);
                            }
                            if st.abandon_at > 0 {
                                s = format!("{}!drop@{}", s, st.abandon_at);
                            }
                            if st.abandon_after_us > 0 {
                                s = format!("{}!drop-after-{}us", s, st.abandon_after_us);
                            }
                            s
                        })
                        .collect::<Vec<_>>()
                        .join("; ")
                })
                .collect();
            serde_json::json!({"clients": scripts, "advance_us": ph.advance_us, "audit": ph.audit})
        })
        .collect();
    serde_json::json!({"seed": plan.seed, "family": plan.family, "knobs": plan.knobs, "tags": plan.tags, "phases": phases, "final_drain": plan.final_drain})
}

// -------------------------------------------------------------------------------------------------
// Minimisation (delta debugging over the Plan)
// -------------------------------------------------------------------------------------------------

fn candidates(plan: &Plan) -> Vec<Plan> {
    let mut out = Vec::new();
    // coarse first
    if plan.knobs.site_mask != 0 {
        let mut p = plan.clone();
        p.knobs.site_mask = 0;
        p.knobs.yield_permille = 0;
        p.knobs.stall_permille = 0;
        out.push(p);
    }
    if plan.knobs.stall_permille != 0 {
        let mut p = plan.clone();
        p.knobs.stall_permille = 0;
        out.push(p);
    }
    if plan.health_probe {
        let mut p = plan.clone();
        p.health_probe = false;
        out.push(p);
    }
    if plan.final_drain {
        let mut p = plan.clone();
        p.final_drain = false;
        out.push(p);
    }
    for i in (0..plan.phases.len()).rev() {
        let mut p = plan.clone();
        p.phases.remove(i);
        out.push(p);
    }
    for i in 0..plan.phases.len() {
        for j in (0..plan.phases[i].scripts.len()).rev() {
            let mut p = plan.clone();
            p.phases[i].scripts.remove(j);
            out.push(p);
        }
    }
    for i in 0..plan.phases.len() {
        for j in 0..plan.phases[i].scripts.len() {
            for k in (0..plan.phases[i].scripts[j].len()).rev() {
                let mut p = plan.clone();
                p.phases[i].scripts[j].remove(k);
                out.push(p);
            }
        }
    }
    for i in 0..plan.phases.len() {
        if plan.phases[i].advance_us != 0 {
            let mut p = plan.clone();
            p.phases[i].advance_us = 0;
            out.push(p);
        }
        if plan.phases[i].audit {
            let mut p = plan.clone();
            p.phases[i].audit = false;
            out.push(p);
        }
        for j in 0..plan.phases[i].scripts.len() {
            for k in 0..plan.phases[i].scripts[j].len() {
                let st = &plan.phases[i].scripts[j][k];
                if st.delay_us != 0 {
                    let mut p = plan.clone();
                    p.phases[i].scripts[j][k].delay_us = 0;
                    out.push(p);
                }
                if st.abandon_at != 0 {
                    let mut p = plan.clone();
                    p.phases[i].scripts[j][k].abandon_at = 0;
                    out.push(p);
                }
                if st.abandon_after_us != 0 {
                    let mut p = plan.clone();
                    p.phases[i].scripts[j][k].abandon_after_us = 0;
                    out.push(p);
                }
                if let Op::PublishMany { count, topic } = &st.op {
                    for smaller in [1u32, *count / 2, count.saturating_sub(1)] {
                        if smaller < *count && smaller > 0 {
                            let mut p = plan.clone();
                            p.phases[i].scripts[j][k].op = Op::PublishMany { topic: topic.clone(), count: smaller };
                            out.push(p);
                        }
                    }
                }
                if let Op::Publish { msgs, .. } = &st.op {
                    if msgs.len() > 1 {
                        let mut p = plan.clone();
                        if let Op::Publish { msgs, .. } = &mut p.phases[i].scripts[j][k].op {
                            msgs.truncate(1);
                        }
                        out.push(p);
                    }
                }
            }
        }
    }
    if plan.knobs.pre_advance_us != 0 {
        let mut p = plan.clone();
        p.knobs.pre_advance_us = 0;
        out.push(p);
    }
    out
}

fn same_violation(r: &RunResult, rule: &str, key: &str) -> Option<Violation> {
    r.claimed.iter().find(|v| v.rule == rule && v.key == key).or_else(|| r.claimed.iter().find(|v| v.rule == rule)).cloned()
}

fn minimise(check: &str, plan: &Plan, rule: &str, key: &str, jobs: usize, budget: usize) -> (Plan, usize) {
    let mut best = plan.clone();
    let mut tried = 0usize;
    let started = Instant::now();
    loop {
        if started.elapsed().as_secs() > MINIMISE_BUDGET_S {
            break;
        }
        let cands = candidates(&best);
        let mut improved = false;
        let mut idx = 0;
        while idx < cands.len() && tried < budget && started.elapsed().as_secs() <= MINIMISE_BUDGET_S {
            let chunk: Vec<(usize, Plan)> = cands[idx..(idx + jobs).min(cands.len())].iter().cloned().enumerate().collect();
            idx += chunk.len();
            tried += chunk.len();
            let results: Vec<(usize, bool)> = std::thread::scope(|s| {
                let handles: Vec<_> = chunk
                    .iter()
                    .map(|(i, p)| {
                        let tag = format!("min{}-{}", tried, i);
                        s.spawn(move || {
                            let ok = match run_plan(check, p, &tag) {
                                ChildOut::Ok(r) => same_violation(&r, rule, key).map(|v| v.rule == rule).unwrap_or(false),
                                ChildOut::Crash(_) => rule == "CRASH.process",
                                ChildOut::Truncated => false,
                            };
                            (*i, ok)
                        })
                    })
                    .collect();
                handles.into_iter().map(|h| h.join().unwrap()).collect()
            });
            if let Some((i, _)) = results.iter().find(|(_, ok)| *ok) {
                best = chunk[*i].1.clone();
                improved = true;
                break;
            }
        }
        if !improved || tried >= budget {
            break;
        }
    }
    (best, tried)
}

// -------------------------------------------------------------------------------------------------
// Batch
// -------------------------------------------------------------------------------------------------

#[derive(Default)]
struct Agg {
    runs: u64,
    crashes: u64,
    truncated: u64,
    nontrivial_keys: HashSet<(u64, u64)>,
    sched_fps: HashSet<u64>,
    state_fps: HashSet<u64>,
    plan_hashes: HashSet<u64>,
    faults: BTreeMap<String, u64>,
    probes: BTreeMap<String, u64>,
    families: BTreeMap<String, u64>,
    other_rules: BTreeMap<String, u64>,
    sim_time_us: u128,
    abandon_points: BTreeMap<String, u64>,
    lock_acquisitions: u64,
    events: u64,
    ops: u64,
    points: u64,
    nontrivial_seeds: Vec<u64>,
    /// first run per distinct (rule, key): (violation, run seed, plan)
    violations: Vec<(Violation, u64, Plan)>,
    violating_runs: u64,
}

pub fn batch_main(args: &[String]) -> i32 {
    let check = match arg(args, "--check") {
        Some(c) => c.to_string(),
        None => {
            eprintln!("--check required");
            return 2;
        }
    };
    let def = match checks::find(&check) {
        Some(d) => d,
        None => {
            eprintln!("unknown check {check}");
            return 2;
        }
    };
    let tier = arg(args, "--tier").unwrap_or("quick").to_string();
    let thorough = tier == "thorough";
    let verif_seed: u64 = std::env::var("VERIF_SEED").ok().and_then(|s| s.parse().ok()).unwrap_or(1);
    let jobs: usize = arg(args, "--jobs").and_then(|s| s.parse().ok()).unwrap_or_else(|| std::thread::available_parallelism().map(|n| n.get()).unwrap_or(8));
    let runs: u64 = arg(args, "--runs").and_then(|s| s.parse().ok()).unwrap_or(if thorough { def.thorough_runs } else { def.quick_runs });
    let budget_s: u64 = arg(args, "--budget-s").and_then(|s| s.parse().ok()).or_else(|| std::env::var("VERIF_BUDGET_S").ok().and_then(|s| s.parse().ok())).unwrap_or(if thorough { 1500 } else { 50 });
    println!("check={check} tier={tier} VERIF_SEED={verif_seed} runs<={runs} budget={budget_s}s jobs={jobs}");
    let start = Instant::now();
    let next = Arc::new(AtomicU64::new(0));
    let stop = Arc::new(AtomicBool::new(false));
    let agg = Arc::new(Mutex::new(Agg::default()));
    let mut handles = Vec::new();
    for _ in 0..jobs {
        let (next, stop, agg, check, tier) = (next.clone(), stop.clone(), agg.clone(), check.clone(), tier.clone());
        handles.push(std::thread::spawn(move || loop {
            if stop.load(Ordering::Relaxed) || start.elapsed().as_secs() >= budget_s {
                break;
            }
            let i = next.fetch_add(1, Ordering::Relaxed);
            if i >= runs {
                break;
            }
            let seed = run_seed(verif_seed, &check, i);
            let out = run_child(&["run".into(), "--check".into(), check.clone(), "--seed".into(), seed.to_string(), "--tier".into(), tier.clone()], Duration::from_secs(CHILD_WALL_CAP_S));
            let mut a = agg.lock().unwrap();
            a.runs += 1;
            match out {
                ChildOut::Truncated => {
                    a.truncated += 1;
                }
                ChildOut::Crash(msg) => {
                    a.crashes += 1;
                    a.violating_runs += 1;
                    let v = Violation { rule: "CRASH.process".into(), key: "process".into(), detail: msg };
                    if !a.violations.iter().any(|(x, _, _)| x.rule == v.rule) {
                        let plan = checks::generate(&check, seed, tier == "thorough");
                        a.violations.push((v, seed, plan));
                    }
                }
                ChildOut::Ok(r) => {
                    if r.nontrivial && a.nontrivial_keys.insert((r.plan_hash, r.sched_fp)) && a.nontrivial_seeds.len() < 3 {
                        a.nontrivial_seeds.push(seed);
                    }
                    a.sched_fps.insert(r.sched_fp ^ r.plan_hash);
                    a.state_fps.insert(r.state_fp);
                    a.plan_hashes.insert(r.plan_hash);
                    for (k, n) in r.faults.iter() {
                        *a.faults.entry(k.clone()).or_insert(0) += n;
                    }
                    for (k, n) in r.probes.iter() {
                        *a.probes.entry(k.clone()).or_insert(0) += n;
                    }
                    *a.families.entry(r.family.clone()).or_insert(0) += 1;
                    for o in r.other.iter() {
                        *a.other_rules.entry(o.clone()).or_insert(0) += 1;
                    }
                    a.sim_time_us += r.sim_time_us as u128;
                    for p in r.abandon_points.iter() {
                        *a.abandon_points.entry(p.clone()).or_insert(0) += 1;
                    }
                    a.lock_acquisitions += r.lock_acquisitions;
                    a.events += r.events;
                    a.ops += r.ops;
                    a.points += r.points;
                    if !r.claimed.is_empty() {
                        a.violating_runs += 1;
                        let plan = r.plan.clone().unwrap_or_else(|| checks::generate(&check, seed, tier == "thorough"));
                        for v in r.claimed.iter() {
                            if !a.violations.iter().any(|(x, _, _)| x.rule == v.rule && x.key == v.key) && a.violations.len() < 12 {
                                a.violations.push((v.clone(), seed, plan.clone()));
                            }
                        }
                    }
                }
            }
        }));
    }
    for h in handles {
        let _ = h.join();
    }
    let a = std::mem::take(&mut *agg.lock().unwrap());
    let explore_wall = start.elapsed().as_secs_f64();

    // Triage violations: minimise, match against known findings, write replay files.
    let known = load_known();
    let mut unknown = 0;
    let mut known_hit: Vec<String> = Vec::new();
    let mut violation_records = Vec::new();
    let replays_dir = format!("{}/replays", verif_dir());
    let _ = std::fs::create_dir_all(&replays_dir);
    let mut reported_files: HashSet<String> = HashSet::new();
    for (v, seed, plan) in a.violations.iter() {
        let (min_plan, tried) = minimise(&check, plan, &v.rule, &v.key, jobs, 320);
        // Re-run the minimised plan to get its own detail and log hash.
        let (final_v, log_hash) = match run_plan(&check, &min_plan, "final") {
            ChildOut::Ok(r) => (same_violation(&r, &v.rule, &v.key).unwrap_or(v.clone()), r.log_hash),
            ChildOut::Crash(m) => (Violation { rule: v.rule.clone(), key: v.key.clone(), detail: m }, 0),
            ChildOut::Truncated => (v.clone(), 0),
        };
        let file = format!("{replays_dir}/{check}-{}-{}-{:x}.json", final_v.rule.replace('.', "_"), seed, fnv_str(&final_v.key) & 0xffff);
        let replay = serde_json::json!({
            "check": check, "verif_seed": verif_seed, "run_seed": seed, "rule": final_v.rule, "key": final_v.key, "detail": final_v.detail,
            "log_hash": log_hash, "minimise_candidates_tried": tried, "original_ops": plan.op_count(), "minimised_ops": min_plan.op_count(), "plan": min_plan,
        });
        if !reported_files.insert(file.clone()) {
            continue; // the minimised plan shows the same (rule, key) as one already reported
        }
        std::fs::write(&file, serde_json::to_string_pretty(&replay).unwrap()).expect("write replay");
        match match_known(&known, &check, &final_v, &min_plan) {
            Some(k) => {
                println!("KNOWN-FINDING: property={} {} [rule {} key {}; replay {}]", check, k.text, final_v.rule, final_v.key, file);
                known_hit.push(format!("{}: {}", final_v.rule, k.text));
            }
            None => {
                unknown += 1;
                println!("VIOLATION property={} replay={}", check, file);
                println!("  rule={} key={} seed={} ops {}->{}: {}", final_v.rule, final_v.key, seed, plan.op_count(), min_plan.op_count(), final_v.detail);
            }
        }
        violation_records.push(serde_json::json!({"rule": final_v.rule, "key": final_v.key, "detail": final_v.detail, "run_seed": seed, "replay": file, "minimised_ops": min_plan.op_count()}));
    }

    // Samples: digests of up to 3 non-trivial plans of this batch.
    let mut samples: Vec<serde_json::Value> = Vec::new();
    for s in a.nontrivial_seeds.iter().take(3) {
        samples.push(plan_digest(&checks::generate(&check, *s, thorough)));
    }
    if samples.is_empty() {
        samples.push(plan_digest(&checks::generate(&check, run_seed(verif_seed, &check, 0), thorough)));
    }
    let wall = start.elapsed().as_secs_f64();
    let runs_per_s = if explore_wall > 0.0 { a.runs as f64 / explore_wall } else { 0.0 };
    let evidence = serde_json::json!({
        "property_id": check,
        "tier": tier,
        "seed": verif_seed,
        "level": def.level,
        "coverage": {
            "evaluations": a.runs,
            "distinct_nontrivial": a.nontrivial_keys.len(),
            "rule": format!("one evaluation = one simulated run (own process, own seed derived from VERIF_SEED, check id and run index) of a generated Plan; non-trivial = {}; distinct = distinct (plan hash, schedule fingerprint) pairs among the non-trivial runs", def.nontrivial_rule),
            "samples": samples,
            "runs_per_s": runs_per_s,
            "seeds_per_hour": runs_per_s * 3600.0,
            "sim_time_total_s": (a.sim_time_us / 1_000_000) as u64,
            "events_recorded": a.events,
            "client_operations": a.ops,
            "schedule_points_reached": a.points,
            "faults_fired": a.faults,
            "crash_points_fired": a.abandon_points,
            "lock_acquisitions_observed": a.lock_acquisitions,
            "probes": a.probes,
            "families": a.families,
            "distinct_plans": a.plan_hashes.len(),
            "distinct_schedule_fingerprints": a.sched_fps.len(),
            "distinct_state_fingerprints": a.state_fps.len(),
            "violations_of_other_properties_seen": a.other_rules,
            "process_crashes": a.crashes,
            "runs_truncated_at_event_budget": a.truncated,
            "known_findings_hit": known_hit,
            "violation_records": violation_records,
            "real_components": ["deltio (all modules, built from /repo working tree with --cfg deltio_verif)", "tonic server stack (router, generated services, codec, status mapping)", "prost", "tokio runtime (current_thread), timers, mpsc/oneshot/Notify", "async-stream, tokio-stream merge, futures Shared"],
            "stubbed_components": ["TCP (never used) and, outside the conn family, HTTP/2 between client and server (direct tower::Service call; two HTTP/2 effects are modelled: the send window as a response pipe for slow StreamingPull clients, and the client's 16 KiB header list limit for status trailers); in the conn family (C07, C17: 3-4% of the runs) tonic's transport server, hyper and h2 run for real on both sides of one in-memory duplex connection", "reqwest/hyper/rustls for push (scripted endpoint behind deltio::verif::PushClient)", "OS entropy (seeded getrandom)", "OS clock for timers (tokio paused clock)"],
            "exhaustive": false
        },
        "assumptions": [
            "sequentially consistent interleavings at schedule-point granularity stand in for the multi-threaded runtime",
            "hyper/h2 behaviour is inside the simulation only in the conn family (one connection, default settings); reqwest is outside",
            "a clean batch is evidence, not proof"
        ],
        "wall_s": wall,
        "violations": unknown,
        "violating_runs": a.violating_runs,
    });
    let ev_dir = format!("{}/evidence", verif_dir());
    let _ = std::fs::create_dir_all(&ev_dir);
    std::fs::write(format!("{ev_dir}/{check}.json"), serde_json::to_string_pretty(&evidence).unwrap()).expect("write evidence");
    println!(
        "runs={} nontrivial_distinct={} violating_runs={} unknown_violations={} known_findings={} wall={:.1}s ({:.0} runs/s) sim_time={}s",
        a.runs,
        a.nontrivial_keys.len(),
        a.violating_runs,
        unknown,
        known_hit.len(),
        wall,
        runs_per_s,
        a.sim_time_us / 1_000_000
    );
    if a.runs == 0 {
        eprintln!("no runs executed");
        return 2;
    }
    if unknown > 0 {
        1
    } else {
        0
    }
}

pub fn replay_main(args: &[String]) -> i32 {
    let check = arg(args, "--check").unwrap_or("").to_string();
    let file = match arg(args, "--file") {
        Some(f) => f.to_string(),
        None => {
            eprintln!("--file required");
            return 2;
        }
    };
    let text = match std::fs::read_to_string(&file) {
        Ok(t) => t,
        Err(e) => {
            eprintln!("cannot read {file}: {e}");
            return 2;
        }
    };
    let v: serde_json::Value = match serde_json::from_str(&text) {
        Ok(v) => v,
        Err(e) => {
            eprintln!("bad replay file: {e}");
            return 2;
        }
    };
    let check = if check.is_empty() { v["check"].as_str().unwrap_or("").to_string() } else { check };
    let rule = v["rule"].as_str().unwrap_or("").to_string();
    let key = v["key"].as_str().unwrap_or("").to_string();
    let want_hash = v["log_hash"].as_u64().unwrap_or(0);
    match run_plan_file(&check, &file) {
        ChildOut::Truncated => {
            println!("NOT-REPRODUCED property={check} rule={rule} replay={file} (the run ended at its event budget while virtual time kept advancing: a long run, inconclusive)");
            0
        }
        ChildOut::Crash(m) => {
            if rule == "CRASH.process" {
                println!("VIOLATION property={check} replay={file}");
                println!("  reproduced: {m}");
                1
            } else {
                eprintln!("replay crashed: {m}");
                2
            }
        }
        ChildOut::Ok(r) => match same_violation(&r, &rule, &key) {
            Some(found) => {
                println!("VIOLATION property={check} replay={file}");
                println!("  reproduced rule={} key={} log_hash {} ({}): {}", found.rule, found.key, r.log_hash, if r.log_hash == want_hash { "identical to the recorded run" } else { "differs from the recorded run: code or harness changed" }, found.detail);
                1
            }
            None => {
                println!("NOT-REPRODUCED property={check} rule={rule} replay={file} (other claimed violations in this run: {:?})", r.claimed.iter().map(|v| v.rule.clone()).collect::<Vec<_>>());
                0
            }
        },
    }
}

/// Determinism self-check: every seed is executed twice in fresh processes (and the seeds are
/// handed out in a different order the second time); event-log hash, schedule fingerprint and
/// verdicts must be identical.
pub fn determinism_main(args: &[String]) -> i32 {
    let n: u64 = arg(args, "--seeds").and_then(|s| s.parse().ok()).unwrap_or(300);
    let jobs: usize = arg(args, "--jobs").and_then(|s| s.parse().ok()).unwrap_or(16);
    let only = arg(args, "--check").map(|s| s.to_string());
    let mut mismatches = 0u64;
    let mut total = 0u64;
    for def in checks::CHECKS.iter() {
        if let Some(o) = &only {
            if o != def.id {
                continue;
            }
        }
        let seeds: Vec<u64> = (0..n).map(|i| run_seed(7777, def.id, i)).collect();
        let pass = |order: Vec<u64>, jobs: usize| -> BTreeMap<u64, (u64, u64, Vec<String>)> {
            let queue = Arc::new(Mutex::new(order));
            let out = Arc::new(Mutex::new(BTreeMap::new()));
            std::thread::scope(|s| {
                for _ in 0..jobs {
                    let (queue, out) = (queue.clone(), out.clone());
                    s.spawn(move || loop {
                        let seed = match queue.lock().unwrap().pop() {
                            Some(x) => x,
                            None => break,
                        };
                        let r = run_child(&["run".into(), "--check".into(), def.id.into(), "--seed".into(), seed.to_string()], Duration::from_secs(CHILD_WALL_CAP_S));
                        let entry = match r {
                            ChildOut::Ok(r) => (r.log_hash, r.sched_fp, r.claimed.iter().map(|v| format!("{}|{}", v.rule, v.key)).collect()),
                            ChildOut::Crash(m) => (0, 0, vec![m]),
                            ChildOut::Truncated => (1, 1, vec!["truncated".to_string()]),
                        };
                        out.lock().unwrap().insert(seed, entry);
                    });
                }
            });
            let r = out.lock().unwrap().clone();
            r
        };
        let a = pass(seeds.clone(), jobs);
        let mut rev = seeds.clone();
        rev.reverse();
        let b = pass(rev, (jobs / 5).max(1));
        let distinct: HashSet<u64> = a.values().map(|x| x.0).collect();
        let mut bad = 0;
        for s in seeds.iter() {
            total += 1;
            if a.get(s) != b.get(s) {
                bad += 1;
                if bad <= 3 {
                    println!("MISMATCH check={} seed={} first={:?} second={:?}", def.id, s, a.get(s), b.get(s));
                }
            }
        }
        mismatches += bad;
        println!("determinism check={} seeds={} mismatches={} distinct_log_hashes={}", def.id, seeds.len(), bad, distinct.len());
    }
    println!("determinism total={} mismatches={}", total, mismatches);
    if mismatches > 0 {
        2
    } else {
        0
    }
}
