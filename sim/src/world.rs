//! Executes one Plan against a real Deltio instance inside a single-threaded tokio runtime with a
//! paused (virtual) clock, and records the history.
use crate::guard::{CancelHandle, GuardOut, Guarded};
use crate::hooks::{self, PushArrival};
use crate::log::*;
use crate::plan::*;
use crate::rng::{fnv, mix3};
use base64::Engine;
use deltio::pubsub_proto as pb;
use deltio::pubsub_proto::publisher_client::PublisherClient;
use deltio::pubsub_proto::subscriber_client::SubscriberClient;
use deltio::subscriptions::SubscriptionName;
use deltio::Deltio;
use std::cell::{Cell, RefCell};
use std::collections::{BTreeMap, BTreeSet};
use std::future::Future;
use std::rc::Rc;
use std::time::Duration;
use tokio::sync::mpsc;
use tokio::time::Instant;
use tonic::service::Routes;

pub const EVENT_CAP: usize = 250_000;
pub const HANG_LIMIT: Duration = Duration::from_secs(3600);
pub const PULL_HANG_LIMIT: Duration = Duration::from_secs(3600);
pub const DRAIN_ADVANCE: Duration = Duration::from_secs(601);

#[derive(Clone, Debug)]
struct HandEntry {
    ack_id: String,
    by: u32,
    response: u64,
    t_us: u64,
    /// Earliest instant the delivery can have been handed out (invocation of the unary Pull;
    /// for stream items the receive time).
    lo_us: u64,
}

struct StreamCtl {
    tx: Option<mpsc::UnboundedSender<pb::StreamingPullRequest>>,
    cancel: CancelHandle,
    sub: String,
}

struct EndpointState {
    attempts: BTreeMap<(String, String), u32>,
    faults_off: bool,
    next_post: u32,
    /// Responders of "never answer" attempts are parked here so the connection stays open.
    parked: Vec<tokio::sync::oneshot::Sender<Result<u16, String>>>,
}

pub struct Sim {
    pub plan: Plan,
    svc: Routes,
    /// One real HTTP/2 connection (hyper + h2 over an in-memory duplex pipe) to the real tonic
    /// transport server, in plans tagged "conn": Pull, Acknowledge and GetSubscription travel over it.
    conn: RefCell<Option<tonic::transport::Channel>>,
    app: Deltio,
    t0: Instant,
    events: RefCell<Vec<Event>>,
    next_call: Cell<u32>,
    next_response: Cell<u64>,
    hands: RefCell<BTreeMap<String, Vec<HandEntry>>>,
    bg: RefCell<BTreeMap<u32, CancelHandle>>,
    bg_pending: Cell<u32>,
    streams: RefCell<BTreeMap<u32, StreamCtl>>,
    known_subs: RefCell<BTreeSet<String>>,
    known_topics: RefCell<BTreeSet<String>>,
    endpoint: RefCell<EndpointState>,
    pub panics: Rc<Cell<u32>>,
}

fn code_of(s: &tonic::Status) -> Code {
    wire_status(s).0
}

/// The status as a client on a real HTTP/2 connection sees it. An error status travels as response
/// trailers (`grpc-status`, percent-encoded `grpc-message`, and for a trailers-only response
/// `:status` and `content-type`); tonic's client announces a header list limit of 16 KiB, and hyper
/// resets the stream when the trailers do not fit: the call then fails with INTERNAL "h2 protocol
/// error" instead of the status the handler returned (shown against the real transport by
/// findings/C17_long_name_real_transport_test.rs; the boundary measured there - a message of 16 029
/// bytes arrives, one of 16 229 does not - agrees with RFC 7541 accounting: name + value + 32 per field).
fn wire_status(s: &tonic::Status) -> (Code, String) {
    const HEADER_LIST_LIMIT: usize = 16 * 1024;
    let encoded: usize = s
        .message()
        .bytes()
        .map(|b| if b < 0x20 || b >= 0x7f || matches!(b, b' ' | b'"' | b'#' | b'<' | b'>' | b'`' | b'?' | b'{' | b'}' | b'%') { 3 } else { 1 })
        .sum();
    // :status 200, content-type application/grpc, grpc-status N, grpc-message <encoded>
    let list = (7 + 3 + 32) + (12 + 16 + 32) + (11 + 2 + 32) + (12 + encoded + 32);
    if list > HEADER_LIST_LIMIT {
        (INTERNAL, format!("h2 protocol error: the status ({:?}, message of {} bytes) does not fit the client's 16 KiB header list limit; the handler said: {}", s.code(), s.message().len(), s.message().chars().take(60).collect::<String>()))
    } else {
        (s.code() as i32, s.message().chars().take(120).collect())
    }
}

fn attrs_hash(attrs: &std::collections::HashMap<String, String>) -> (u64, u64) {
    let sorted: BTreeMap<&String, &String> = attrs.iter().collect();
    let mut h = 0xcbf2_9ce4_8422_2325u64;
    for (k, v) in sorted.iter() {
        h = mix3(h, fnv(k.as_bytes()), fnv(v.as_bytes()));
    }
    (h, attrs.len() as u64)
}

fn token_of(data: &[u8], attrs: &std::collections::HashMap<String, String>) -> String {
    if data.first() == Some(&b'T') {
        if let Some(end) = data.iter().position(|b| *b == b'|') {
            if let Ok(s) = std::str::from_utf8(&data[1..end]) {
                return s.to_string();
            }
        }
    }
    attrs.get("tok").cloned().unwrap_or_default()
}

pub fn build_message(token: &str, spec: &MsgSpec) -> pb::PubsubMessage {
    let mut data: Vec<u8> = Vec::new();
    let with_token = !matches!(spec.data, 0 | 6);
    if with_token {
        data.push(b'T');
        data.extend_from_slice(token.as_bytes());
        data.push(b'|');
    }
    match spec.data {
        0 => {}
        1 => data.extend_from_slice(b"hello"),
        2 => data.extend((0u16..256).map(|b| b as u8)),
        3 => data.extend_from_slice(&[0xff, 0xfe, 0x00, 0xc3, 0x28, 0x80]),
        4 => data.extend(std::iter::repeat(0xAB).take(64 * 1024)),
        5 => data.extend((0..1024 * 1024u32).map(|i| (i % 251) as u8)),
        6 => data.push(0),
        _ => data.extend_from_slice(b"x"),
    }
    let mut attributes = std::collections::HashMap::new();
    match spec.attrs {
        0 => {}
        1 => {
            attributes.insert("tok".to_string(), token.to_string());
        }
        2 => {
            attributes.insert("tok".to_string(), token.to_string());
            for i in 0..49 {
                attributes.insert(format!("key-{i}"), format!("value-{i}"));
            }
        }
        3 => {
            attributes.insert("tok".to_string(), token.to_string());
            attributes.insert(String::new(), String::new());
        }
        4 => {
            attributes.insert("tok".to_string(), token.to_string());
            attributes.insert("ключ-鍵".to_string(), "значение-値-🚀".to_string());
        }
        _ => {
            attributes.insert("tok".to_string(), token.to_string());
            attributes.insert("long".to_string(), "v".repeat(4096));
        }
    }
    pb::PubsubMessage {
        data,
        attributes,
        message_id: String::new(),
        publish_time: None,
        ordering_key: String::new(),
    }
}

fn recv_of(m: &pb::ReceivedMessage) -> Recv {
    let msg = m.message.clone().unwrap_or_default();
    let (ah, al) = attrs_hash(&msg.attributes);
    Recv {
        ack_id: m.ack_id.clone(),
        msg_id: msg.message_id.clone(),
        data_hash: fnv(&msg.data),
        data_len: msg.data.len() as u64,
        attrs_hash: ah,
        attrs_len: al,
        token: token_of(&msg.data, &msg.attributes),
        publish_time: msg.publish_time.map(|t| (t.seconds, t.nanos)),
    }
}

fn sub_view(s: &pb::Subscription) -> SubView {
    SubView {
        name: s.name.clone(),
        topic: s.topic.clone(),
        ack_deadline: s.ack_deadline_seconds,
        push_endpoint: s.push_config.as_ref().map(|p| p.push_endpoint.clone()),
        push_attrs: s
            .push_config
            .as_ref()
            .map(|p| p.attributes.iter().map(|(k, v)| (k.clone(), v.clone())).collect())
            .unwrap_or_default(),
        oidc: s.push_config.as_ref().and_then(|p| {
            p.authentication_method.as_ref().map(|m| match m {
                pb::push_config::AuthenticationMethod::OidcToken(t) => {
                    (t.audience.clone(), t.service_account_email.clone())
                }
            })
        }),
    }
}

fn push_config_of(p: &PushSpec) -> pb::PushConfig {
    pb::PushConfig {
        push_endpoint: p.endpoint.clone(),
        attributes: p.attrs.iter().map(|(k, v)| (k.clone(), v.clone())).collect(),
        authentication_method: p.oidc.as_ref().map(|(aud, email)| {
            pb::push_config::AuthenticationMethod::OidcToken(pb::push_config::OidcToken {
                audience: aud.clone(),
                service_account_email: email.clone(),
            })
        }),
    }
}

impl Sim {
    pub fn new(plan: Plan, panics: Rc<Cell<u32>>) -> Rc<Self> {
        let app = Deltio::new();
        let svc = app.server_builder().into_service();
        Rc::new(Sim {
            plan,
            svc,
            conn: RefCell::new(None),
            app,
            t0: Instant::now(),
            events: RefCell::new(Vec::new()),
            next_call: Cell::new(1),
            next_response: Cell::new(1),
            hands: RefCell::new(BTreeMap::new()),
            bg: RefCell::new(BTreeMap::new()),
            bg_pending: Cell::new(0),
            streams: RefCell::new(BTreeMap::new()),
            known_subs: RefCell::new(BTreeSet::new()),
            known_topics: RefCell::new(BTreeSet::new()),
            endpoint: RefCell::new(EndpointState {
                attempts: BTreeMap::new(),
                faults_off: false,
                next_post: 1,
                parked: Vec::new(),
            }),
            panics,
        })
    }

    pub fn now_us(&self) -> u64 {
        (Instant::now() - self.t0).as_micros() as u64
    }

    pub fn log(&self, client: u32, ev: Ev) -> u64 {
        let mut events = self.events.borrow_mut();
        let seq = events.len() as u64 + 1;
        events.push(Event { seq, t_us: self.now_us(), client, ev });
        if events.len() > EVENT_CAP {
            // A run that keeps producing events without ending is reported by the parent as a
            // crash-class violation ("runaway"); show what it was doing.
            let tail: Vec<String> = events.iter().rev().take(6).map(|e| format!("{}@{}us {:?}", e.seq, e.t_us, e.ev).chars().take(160).collect()).collect();
            // Events spread over virtual time (redelivery cycles of a large workload across long
            // clock advances) are a long run, not a runaway: the run is abandoned as inconclusive
            // (exit 4, counted as truncated). Events piling up while the virtual clock stands
            // (almost) still are a runaway (exit 3, reported as CRASH.process).
            let span_us = events[events.len() - 1].t_us - events[events.len() - 100_000].t_us;
            if span_us >= 10_000_000 {
                eprintln!("truncated: more than {} events, the last 100000 spread over {} virtual us; last: {}", EVENT_CAP, span_us, tail.join(" | "));
                std::process::exit(4);
            }
            eprintln!("runaway: more than {} events; last: {}", EVENT_CAP, tail.join(" | "));
            std::process::exit(3);
        }
        seq
    }

    pub fn take_events(&self) -> Vec<Event> {
        std::mem::take(&mut *self.events.borrow_mut())
    }

    fn publisher(&self) -> PublisherClient<Routes> {
        PublisherClient::new(self.svc.clone())
            .max_decoding_message_size(64 * 1024 * 1024)
            .max_encoding_message_size(64 * 1024 * 1024)
    }

    fn subscriber(&self) -> SubscriberClient<Routes> {
        SubscriberClient::new(self.svc.clone())
            .max_decoding_message_size(64 * 1024 * 1024)
            .max_encoding_message_size(64 * 1024 * 1024)
    }

    fn subscriber_conn(&self) -> Option<SubscriberClient<tonic::transport::Channel>> {
        self.conn.borrow().as_ref().map(|ch| SubscriberClient::new(ch.clone()).max_decoding_message_size(64 * 1024 * 1024).max_encoding_message_size(64 * 1024 * 1024))
    }

    /// Starts the real transport server on one in-memory connection and connects a channel to it.
    async fn open_connection(&self) {
        use tokio_stream::StreamExt;
        let (cio, sio) = tokio::io::duplex(1 << 20);
        let router = self.app.server_builder();
        let incoming = tokio_stream::once(Ok::<_, std::io::Error>(sio)).chain(tokio_stream::pending());
        tokio::spawn(async move {
            let _ = router.serve_with_incoming(incoming).await;
        });
        let mut cio = Some(cio);
        let channel = tonic::transport::Endpoint::from_static("http://sim.test")
            .connect_with_connector(tower::service_fn(move |_: tonic::transport::Uri| {
                let c = cio.take();
                async move { c.map(hyper_util::rt::TokioIo::new).ok_or_else(|| std::io::Error::new(std::io::ErrorKind::Other, "the simulated connection was already taken")) }
            }))
            .await
            .expect("in-memory connection");
        *self.conn.borrow_mut() = Some(channel);
    }

    fn new_call(&self) -> u32 {
        let c = self.next_call.get();
        self.next_call.set(c + 1);
        c
    }

    /// Resolves a selector against the deliveries received so far on `sub`.
    fn resolve(&self, client: u32, sub: &str, sel: &Sel) -> Vec<String> {
        let hands = self.hands.borrow();
        let empty = Vec::new();
        let all = hands.get(sub).unwrap_or(&empty);
        let pool: Vec<&HandEntry> =
            all.iter().filter(|h| !sel.mine || h.by == client).collect();
        let mut out: Vec<String> = match &sel.pick {
            Pick::None => vec![],
            Pick::All => pool.iter().map(|h| h.ack_id.clone()).collect(),
            Pick::LastN(n) => {
                let n = (*n as usize).min(pool.len());
                pool[pool.len() - n..].iter().map(|h| h.ack_id.clone()).collect()
            }
            Pick::OldestN(n) => {
                let n = (*n as usize).min(pool.len());
                pool[..n].iter().map(|h| h.ack_id.clone()).collect()
            }
            Pick::Nth(i) => {
                if pool.is_empty() {
                    vec![]
                } else {
                    vec![pool[*i as usize % pool.len()].ack_id.clone()]
                }
            }
            Pick::LastResponse => match pool.last() {
                None => vec![],
                Some(last) => pool
                    .iter()
                    .filter(|h| h.response == last.response)
                    .map(|h| h.ack_id.clone())
                    .collect(),
            },
        };
        if sel.repeat > 0 {
            let once = out.clone();
            for _ in 0..sel.repeat {
                out.extend(once.iter().cloned());
            }
        }
        out.extend(sel.extra.iter().cloned());
        for i in 0..sel.filler {
            out.push(format!("{}", 7_000_000u64 + i as u64));
        }
        if let Some(pos) = sel.bad_at {
            let pos = (pos as usize).min(out.len());
            out.insert(pos, "not-an-ack-id".to_string());
        }
        out
    }

    fn note_received(&self, client: u32, sub: &str, recvs: &[Recv]) {
        self.note_received_since(client, sub, recvs, None)
    }

    fn note_received_since(&self, client: u32, sub: &str, recvs: &[Recv], invoked_us: Option<u64>) {
        let response = self.next_response.get();
        self.next_response.set(response + 1);
        let t_us = self.now_us();
        let lo_us = invoked_us.unwrap_or(t_us);
        let mut hands = self.hands.borrow_mut();
        let hand = hands.entry(sub.to_string()).or_default();
        for r in recvs {
            hand.push(HandEntry { ack_id: r.ack_id.clone(), by: client, response, t_us, lo_us });
        }
    }

    /// Runs one unary call under the guard and the hang limit, and records it.
    async fn unary<T, F>(
        &self,
        client: u32,
        req: Req,
        abandon_at: u32,
        cancel: Option<CancelHandle>,
        limit: Duration,
        fut: F,
        map: impl FnOnce(T) -> Resp,
    ) -> Outcome
    where
        F: Future<Output = Result<tonic::Response<T>, tonic::Status>>,
    {
        let call = self.new_call();
        self.log(client, Ev::Invoke { call, req, abandon_at });
        let guarded = Guarded::new(fut, abandon_at, cancel);
        let out = match tokio::time::timeout(limit, guarded).await {
            Err(_) => Outcome::Hang,
            Ok(GuardOut::Abandoned(k)) => Outcome::Abandoned(k),
            Ok(GuardOut::Panic(m)) => Outcome::Panic(m),
            Ok(GuardOut::Done(Err(status))) => {
                Outcome::Err(wire_status(&status).0, wire_status(&status).1)
            }
            Ok(GuardOut::Done(Ok(resp))) => Outcome::Ok(map(resp.into_inner())),
        };
        self.log(client, Ev::Return { call, out: out.clone() });
        out
    }

    pub async fn pull(
        &self,
        client: u32,
        sub: &str,
        max: i32,
        immediate: bool,
        abandon_at: u32,
        bg_slot: Option<u32>,
        cancel: Option<CancelHandle>,
    ) -> Outcome {
        let mut c = self.subscriber();
        #[allow(deprecated)]
        let request = pb::PullRequest {
            subscription: sub.to_string(),
            return_immediately: immediate,
            max_messages: max,
        };
        let mut request = tonic::Request::new(request);
        if self.plan.knobs.call_deadline_s > 0 {
            request.set_timeout(Duration::from_secs(self.plan.knobs.call_deadline_s));
        }
        let req = Req::Pull { sub: sub.to_string(), max, immediate, bg_slot };
        let invoked_us = self.now_us();
        let out = if let Some(mut cc) = self.subscriber_conn() {
            self.unary(client, req, abandon_at, cancel, PULL_HANG_LIMIT, async move { cc.pull(request).await }, |r: pb::PullResponse| {
                Resp::Pulled(r.received_messages.iter().map(recv_of).collect())
            })
            .await
        } else {
            self.unary(client, req, abandon_at, cancel, PULL_HANG_LIMIT, async move { c.pull(request).await }, |r: pb::PullResponse| {
                Resp::Pulled(r.received_messages.iter().map(recv_of).collect())
            })
            .await
        };
        if let Outcome::Ok(Resp::Pulled(recvs)) = &out {
            self.note_received_since(client, sub, recvs, Some(invoked_us));
        }
        out
    }

    pub async fn ack(&self, client: u32, sub: &str, ack_ids: Vec<String>, abandon_at: u32, cancel: Option<CancelHandle>) -> Outcome {
        let mut c = self.subscriber();
        let request = pb::AcknowledgeRequest { subscription: sub.to_string(), ack_ids: ack_ids.clone() };
        if let Some(mut cc) = self.subscriber_conn() {
            return self.unary(client, Req::Ack { sub: sub.to_string(), ack_ids }, abandon_at, cancel, HANG_LIMIT, async move { cc.acknowledge(request).await }, |_: ()| Resp::Empty).await;
        }
        self.unary(
            client,
            Req::Ack { sub: sub.to_string(), ack_ids },
            abandon_at,
            cancel,
            HANG_LIMIT,
            async move { c.acknowledge(request).await },
            |_: ()| Resp::Empty,
        )
        .await
    }

    pub async fn modack(&self, client: u32, sub: &str, ack_ids: Vec<String>, secs: i32, abandon_at: u32, cancel: Option<CancelHandle>) -> Outcome {
        let mut c = self.subscriber();
        let request = pb::ModifyAckDeadlineRequest {
            subscription: sub.to_string(),
            ack_ids: ack_ids.clone(),
            ack_deadline_seconds: secs,
        };
        self.unary(
            client,
            Req::ModAck { sub: sub.to_string(), ack_ids, secs },
            abandon_at,
            cancel,
            HANG_LIMIT,
            async move { c.modify_ack_deadline(request).await },
            |_: ()| Resp::Empty,
        )
        .await
    }

    pub async fn publish(&self, client: u32, topic: &str, msgs: &[MsgSpec], abandon_at: u32, cancel: Option<CancelHandle>) -> Outcome {
        let mut c = self.publisher();
        // The token names the publish call that is about to be made.
        let call = self.next_call.get();
        let mut tokens = Vec::new();
        let mut messages = Vec::new();
        let (mut dh, mut dl, mut ah, mut al) = (vec![], vec![], vec![], vec![]);
        for (i, spec) in msgs.iter().enumerate() {
            let token = format!("{call}:{i}");
            let m = build_message(&token, spec);
            dh.push(fnv(&m.data));
            dl.push(m.data.len() as u64);
            let (h, l) = attrs_hash(&m.attributes);
            ah.push(h);
            al.push(l);
            tokens.push(token);
            messages.push(m);
        }
        let request = pb::PublishRequest { topic: topic.to_string(), messages };
        let conn = self.conn.borrow().as_ref().map(|ch| PublisherClient::new(ch.clone()).max_decoding_message_size(64 * 1024 * 1024).max_encoding_message_size(64 * 1024 * 1024));
        if let Some(mut cc) = conn {
            return self
                .unary(
                    client,
                    Req::Publish { topic: topic.to_string(), tokens, data_hash: dh, data_len: dl, attrs_hash: ah, attrs_len: al },
                    abandon_at,
                    cancel,
                    HANG_LIMIT,
                    async move { cc.publish(request).await },
                    |r: pb::PublishResponse| Resp::Published(r.message_ids),
                )
                .await;
        }
        self.unary(
            client,
            Req::Publish { topic: topic.to_string(), tokens, data_hash: dh, data_len: dl, attrs_hash: ah, attrs_len: al },
            abandon_at,
            cancel,
            HANG_LIMIT,
            async move { c.publish(request).await },
            |r: pb::PublishResponse| Resp::Published(r.message_ids),
        )
        .await
    }

    async fn list_page(&self, client: u32, kind: &ListKind, parent: &str, page_size: i32, token: &str, record: bool) -> (Code, Vec<String>, String, Option<Outcome>) {
        let req = Req::ListPage { kind: kind.clone(), parent: parent.to_string(), page_size, token: token.to_string() };
        let out = match kind {
            ListKind::Topics => {
                let mut c = self.publisher();
                let request = pb::ListTopicsRequest { project: parent.to_string(), page_size, page_token: token.to_string() };
                let fut = async move { c.list_topics(request).await };
                let map = |r: pb::ListTopicsResponse| Resp::Names(r.topics.into_iter().map(|t| t.name).collect(), r.next_page_token);
                if record {
                    self.unary(client, req, 0, None, HANG_LIMIT, fut, map).await
                } else {
                    self.quiet(fut, map).await
                }
            }
            ListKind::Subs => {
                let mut c = self.subscriber();
                let request = pb::ListSubscriptionsRequest { project: parent.to_string(), page_size, page_token: token.to_string() };
                let fut = async move { c.list_subscriptions(request).await };
                let map = |r: pb::ListSubscriptionsResponse| Resp::Subs(r.subscriptions.iter().map(sub_view).collect(), r.next_page_token);
                if record {
                    self.unary(client, req, 0, None, HANG_LIMIT, fut, map).await
                } else {
                    self.quiet(fut, map).await
                }
            }
            ListKind::TopicSubs => {
                let mut c = self.publisher();
                let request = pb::ListTopicSubscriptionsRequest { topic: parent.to_string(), page_size, page_token: token.to_string() };
                let fut = async move { c.list_topic_subscriptions(request).await };
                let map = |r: pb::ListTopicSubscriptionsResponse| Resp::Names(r.subscriptions, r.next_page_token);
                if record {
                    self.unary(client, req, 0, None, HANG_LIMIT, fut, map).await
                } else {
                    self.quiet(fut, map).await
                }
            }
        };
        match &out {
            Outcome::Ok(Resp::Names(n, next)) => (OK, n.clone(), next.clone(), Some(out.clone())),
            Outcome::Ok(Resp::Subs(s, next)) => (OK, s.iter().map(|v| v.name.clone()).collect(), next.clone(), Some(out.clone())),
            Outcome::Err(c, _) => (*c, vec![], String::new(), Some(out.clone())),
            _ => (-1, vec![], String::new(), Some(out.clone())),
        }
    }

    /// A call that is not recorded as its own Invoke/Return (pages of a Walk).
    async fn quiet<T, F>(&self, fut: F, map: impl FnOnce(T) -> Resp) -> Outcome
    where
        F: Future<Output = Result<tonic::Response<T>, tonic::Status>>,
    {
        match tokio::time::timeout(HANG_LIMIT, Guarded::new(fut, 0, None)).await {
            Err(_) => Outcome::Hang,
            Ok(GuardOut::Abandoned(k)) => Outcome::Abandoned(k),
            Ok(GuardOut::Panic(m)) => Outcome::Panic(m),
            Ok(GuardOut::Done(Err(status))) => Outcome::Err(wire_status(&status).0, wire_status(&status).1),
            Ok(GuardOut::Done(Ok(resp))) => Outcome::Ok(map(resp.into_inner())),
        }
    }

    /// Follows next_page_token from the first page until it is empty (bounded).
    pub async fn walk(&self, client: u32, kind: &ListKind, parent: &str, page_size: i32) -> Outcome {
        let call = self.new_call();
        self.log(client, Ev::Invoke { call, req: Req::Walk { kind: kind.clone(), parent: parent.to_string(), page_size }, abandon_at: 0 });
        let mut pages = Vec::new();
        let mut token = String::new();
        let mut out = None;
        for _ in 0..3000 {
            let (code, names, next, raw) = self.list_page(client, kind, parent, page_size, &token, false).await;
            match raw {
                Some(Outcome::Hang) => {
                    out = Some(Outcome::Hang);
                    break;
                }
                Some(Outcome::Panic(m)) => {
                    out = Some(Outcome::Panic(m));
                    break;
                }
                _ => {}
            }
            pages.push(Page { page_size, token: token.clone(), code, names, next: next.clone() });
            if code != OK || next.is_empty() {
                break;
            }
            token = next;
        }
        let out = out.unwrap_or(Outcome::Ok(Resp::Walk(pages)));
        self.log(client, Ev::Return { call, out: out.clone() });
        out
    }

    // ------------------------------------------------------------------------------------------
    // Streams

    fn stream_open(self: &Rc<Self>, client: u32, slot: u32, sub: &str, max_msgs: i64, max_bytes: i64, policy: StreamPolicy, window: u32, stall_after: u32, stall_us: u64) {
        let (tx, mut rx) = mpsc::unbounded_channel::<pb::StreamingPullRequest>();
        let cancel = CancelHandle::new();
        self.streams.borrow_mut().insert(slot, StreamCtl { tx: Some(tx.clone()), cancel: cancel.clone(), sub: sub.to_string() });
        self.log(client, Ev::StreamOpen { slot, sub: sub.to_string(), max_msgs, max_bytes, window });
        let first = pb::StreamingPullRequest {
            subscription: sub.to_string(),
            ack_ids: vec![],
            modify_deadline_seconds: vec![],
            modify_deadline_ack_ids: vec![],
            stream_ack_deadline_seconds: 10,
            client_id: String::new(),
            max_outstanding_messages: max_msgs,
            max_outstanding_bytes: max_bytes,
        };
        let _ = tx.send(first);
        drop(tx);
        let sim = Rc::clone(self);
        let sub = sub.to_string();
        tokio::task::spawn_local(async move {
            let request_stream = futures::stream::poll_fn(move |cx| rx.poll_recv(cx));
            let started = if let Some(mut cc) = sim.subscriber_conn() {
                tokio::time::timeout(HANG_LIMIT, Guarded::new(async move { cc.streaming_pull(request_stream).await }, 0, Some(cancel.clone()))).await
            } else {
                let mut c = sim.subscriber();
                tokio::time::timeout(HANG_LIMIT, Guarded::new(async move { c.streaming_pull(request_stream).await }, 0, Some(cancel.clone()))).await
            };
            let mut stream = match started {
                Err(_) => {
                    sim.log(client, Ev::StreamStarted { slot, code: -2 });
                    sim.log(client, Ev::StreamEnd { slot, end: StreamEnd::Status(-2, "hang opening".into()) });
                    return;
                }
                Ok(GuardOut::Abandoned(_)) => {
                    sim.log(client, Ev::StreamEnd { slot, end: StreamEnd::Dropped });
                    return;
                }
                Ok(GuardOut::Panic(m)) => {
                    sim.log(client, Ev::StreamEnd { slot, end: StreamEnd::Panic(m) });
                    return;
                }
                Ok(GuardOut::Done(Err(status))) => {
                    sim.log(client, Ev::StreamStarted { slot, code: code_of(&status) });
                    sim.log(client, Ev::StreamEnd { slot, end: StreamEnd::Status(wire_status(&status).0, wire_status(&status).1) });
                    sim.streams.borrow_mut().remove(&slot);
                    return;
                }
                Ok(GuardOut::Done(Ok(resp))) => {
                    sim.log(client, Ev::StreamStarted { slot, code: OK });
                    resp.into_inner()
                }
            };
            if window > 0 {
                sim.stream_pump(client, slot, sub, policy, stream, cancel, window, stall_after, stall_us).await;
                sim.streams.borrow_mut().remove(&slot);
                return;
            }
            let mut nacked_once = false;
            loop {
                let next = Guarded::new(stream.message(), 0, Some(cancel.clone())).await;
                match next {
                    GuardOut::Abandoned(_) => {
                        drop(stream);
                        sim.log(client, Ev::StreamEnd { slot, end: StreamEnd::Dropped });
                        break;
                    }
                    GuardOut::Panic(m) => {
                        sim.log(client, Ev::StreamEnd { slot, end: StreamEnd::Panic(m) });
                        break;
                    }
                    GuardOut::Done(Err(status)) => {
                        sim.log(client, Ev::StreamEnd { slot, end: StreamEnd::Status(wire_status(&status).0, wire_status(&status).1) });
                        break;
                    }
                    GuardOut::Done(Ok(None)) => {
                        sim.log(client, Ev::StreamEnd { slot, end: StreamEnd::Eof });
                        break;
                    }
                    GuardOut::Done(Ok(Some(resp))) => {
                        let recvs: Vec<Recv> = resp.received_messages.iter().map(recv_of).collect();
                        sim.note_received(client, &sub, &recvs);
                        sim.log(client, Ev::StreamItem { slot, recvs: recvs.clone() });
                        sim.stream_policy(client, slot, &policy, &recvs, &mut nacked_once);
                    }
                }
            }
            // The stream is over: forget the control handle (drops the request sender).
            sim.streams.borrow_mut().remove(&slot);
        });
    }

    fn stream_policy(&self, client: u32, slot: u32, policy: &StreamPolicy, recvs: &[Recv], nacked_once: &mut bool) {
        let ids: Vec<String> = recvs.iter().map(|r| r.ack_id.clone()).collect();
        match policy {
            StreamPolicy::Hold => {}
            StreamPolicy::AckAll => self.stream_send_raw(client, slot, ids, vec![], vec![], false, None),
            StreamPolicy::NackFirst => {
                if !*nacked_once {
                    *nacked_once = true;
                    let secs = vec![0; ids.len()];
                    self.stream_send_raw(client, slot, vec![], ids, secs, false, None);
                }
            }
            StreamPolicy::ModAck(n) => {
                let secs = vec![*n; ids.len()];
                self.stream_send_raw(client, slot, vec![], ids, secs, false, None);
            }
        }
    }

    /// The response direction of a stream as a flow-controlled pipe (the HTTP/2 send window of a
    /// real connection): the server's response stream is polled only while the pipe has room for
    /// another response, so a client that stops reading leaves the handler suspended at its `yield`.
    /// The pump is the transport: what it takes from the server has left the server (StreamItem);
    /// the client side (reader) sees it when it reads, and can only name ack IDs it has read.
    #[allow(clippy::too_many_arguments)]
    async fn stream_pump(
        self: &Rc<Self>,
        client: u32,
        slot: u32,
        sub: String,
        policy: StreamPolicy,
        mut stream: tonic::Streaming<pb::StreamingPullResponse>,
        cancel: CancelHandle,
        window: u32,
        stall_after: u32,
        stall_us: u64,
    ) {
        let (ptx, mut prx) = mpsc::channel::<Vec<Recv>>(window as usize);
        let reader = {
            let sim = Rc::clone(self);
            let sub = sub.clone();
            tokio::task::spawn_local(async move {
                let mut read = 0u32;
                let mut stalled = false;
                let mut nacked_once = false;
                loop {
                    if stall_us > 0 && !stalled && read >= stall_after {
                        stalled = true;
                        sim.log(client, Ev::StreamStall { slot, on: true });
                        tokio::time::sleep(Duration::from_micros(stall_us)).await;
                        sim.log(client, Ev::StreamStall { slot, on: false });
                    }
                    match prx.recv().await {
                        None => break,
                        Some(recvs) => {
                            read += 1;
                            sim.note_received(client, &sub, &recvs);
                            sim.stream_policy(client, slot, &policy, &recvs, &mut nacked_once);
                        }
                    }
                }
            })
        };
        loop {
            let permit = match Guarded::new(ptx.reserve(), 0, Some(cancel.clone())).await {
                GuardOut::Done(Ok(p)) => p,
                _ => {
                    drop(stream);
                    self.log(client, Ev::StreamEnd { slot, end: StreamEnd::Dropped });
                    break;
                }
            };
            let next = Guarded::new(stream.message(), 0, Some(cancel.clone())).await;
            match next {
                GuardOut::Abandoned(_) => {
                    drop(stream);
                    self.log(client, Ev::StreamEnd { slot, end: StreamEnd::Dropped });
                    break;
                }
                GuardOut::Panic(m) => {
                    self.log(client, Ev::StreamEnd { slot, end: StreamEnd::Panic(m) });
                    break;
                }
                GuardOut::Done(Err(status)) => {
                    self.log(client, Ev::StreamEnd { slot, end: StreamEnd::Status(wire_status(&status).0, wire_status(&status).1) });
                    break;
                }
                GuardOut::Done(Ok(None)) => {
                    self.log(client, Ev::StreamEnd { slot, end: StreamEnd::Eof });
                    break;
                }
                GuardOut::Done(Ok(Some(resp))) => {
                    let recvs: Vec<Recv> = resp.received_messages.iter().map(recv_of).collect();
                    self.log(client, Ev::StreamItem { slot, recvs: recvs.clone() });
                    permit.send(recvs);
                }
            }
        }
        drop(ptx);
        let _ = reader;
    }

    fn stream_send_raw(
        &self,
        client: u32,
        slot: u32,
        acks: Vec<String>,
        modacks: Vec<String>,
        modack_secs: Vec<i32>,
        hostile: bool,
        raw: Option<(String, i64, i64, i32)>,
    ) {
        let streams = self.streams.borrow();
        let ctl = match streams.get(&slot) {
            Some(c) => c,
            None => return,
        };
        let tx = match &ctl.tx {
            Some(tx) => tx,
            None => return,
        };
        let (raw_sub, raw_msgs, raw_bytes, stream_secs) = raw.unwrap_or_default();
        let request = pb::StreamingPullRequest {
            subscription: raw_sub,
            ack_ids: acks.clone(),
            modify_deadline_seconds: modack_secs.clone(),
            modify_deadline_ack_ids: modacks.clone(),
            stream_ack_deadline_seconds: stream_secs,
            client_id: String::new(),
            max_outstanding_messages: raw_msgs,
            max_outstanding_bytes: raw_bytes,
        };
        if tx.send(request).is_ok() {
            self.log(client, Ev::StreamSend { slot, acks, modacks, modack_secs, hostile });
        }
    }

    fn stream_close_req(&self, client: u32, slot: u32) {
        let mut streams = self.streams.borrow_mut();
        if let Some(ctl) = streams.get_mut(&slot) {
            if ctl.tx.take().is_some() {
                self.log(client, Ev::StreamCloseReq { slot });
            }
        }
    }

    fn stream_drop(&self, _client: u32, slot: u32) {
        let streams = self.streams.borrow();
        if let Some(ctl) = streams.get(&slot) {
            ctl.cancel.cancel();
        }
    }

    // ------------------------------------------------------------------------------------------
    // Steps

    pub async fn step(self: &Rc<Self>, client: u32, step: &Step) {
        if step.delay_us > 0 {
            tokio::time::sleep(Duration::from_micros(step.delay_us)).await;
        }
        let ab = step.abandon_at;
        // time-based abandonment: a timer cancels the call; the guard drops it at a real suspension
        let timed: Option<CancelHandle> = if step.abandon_after_us > 0 {
            let h = CancelHandle::new();
            let h2 = h.clone();
            let after = step.abandon_after_us;
            tokio::task::spawn_local(async move {
                tokio::time::sleep(Duration::from_micros(after)).await;
                h2.cancel();
            });
            Some(h)
        } else {
            None
        };
        match &step.op {
            Op::Nop => {}
            Op::CreateTopic { topic } => {
                let mut c = self.publisher();
                let request = pb::Topic { name: topic.clone(), ..Default::default() };
                self.known_topics.borrow_mut().insert(topic.clone());
                self.unary(client, Req::CreateTopic { topic: topic.clone() }, ab, timed.clone(), HANG_LIMIT, async move { c.create_topic(request).await }, |t: pb::Topic| Resp::Topic(t.name)).await;
            }
            Op::DeleteTopic { topic } => {
                let mut c = self.publisher();
                let request = pb::DeleteTopicRequest { topic: topic.clone() };
                self.unary(client, Req::DeleteTopic { topic: topic.clone() }, ab, timed.clone(), HANG_LIMIT, async move { c.delete_topic(request).await }, |_: ()| Resp::Empty).await;
            }
            Op::GetTopic { topic } => {
                let mut c = self.publisher();
                let request = pb::GetTopicRequest { topic: topic.clone() };
                self.unary(client, Req::GetTopic { topic: topic.clone() }, ab, timed.clone(), HANG_LIMIT, async move { c.get_topic(request).await }, |t: pb::Topic| Resp::Topic(t.name)).await;
            }
            Op::CreateSub { sub, topic, ack_deadline, push } => {
                let mut c = self.subscriber();
                let request = pb::Subscription {
                    name: sub.clone(),
                    topic: topic.clone(),
                    ack_deadline_seconds: *ack_deadline,
                    push_config: push.as_ref().map(push_config_of),
                    ..Default::default()
                };
                self.known_subs.borrow_mut().insert(sub.clone());
                self.unary(
                    client,
                    Req::CreateSub { sub: sub.clone(), topic: topic.clone(), ack_deadline: *ack_deadline, push: push.clone() },
                    ab,
                    None,
                    HANG_LIMIT,
                    async move { c.create_subscription(request).await },
                    |s: pb::Subscription| Resp::Sub(sub_view(&s)),
                )
                .await;
            }
            Op::DeleteSub { sub } => {
                let mut c = self.subscriber();
                let request = pb::DeleteSubscriptionRequest { subscription: sub.clone() };
                self.unary(client, Req::DeleteSub { sub: sub.clone() }, ab, timed.clone(), HANG_LIMIT, async move { c.delete_subscription(request).await }, |_: ()| Resp::Empty).await;
            }
            Op::GetSub { sub } => {
                let mut c = self.subscriber();
                let request = pb::GetSubscriptionRequest { subscription: sub.clone() };
                if let Some(mut cc) = self.subscriber_conn() {
                    self.unary(client, Req::GetSub { sub: sub.clone() }, ab, timed.clone(), HANG_LIMIT, async move { cc.get_subscription(request).await }, |s: pb::Subscription| Resp::Sub(sub_view(&s))).await;
                } else {
                    self.unary(client, Req::GetSub { sub: sub.clone() }, ab, timed.clone(), HANG_LIMIT, async move { c.get_subscription(request).await }, |s: pb::Subscription| Resp::Sub(sub_view(&s))).await;
                }
            }
            Op::ListPage { kind, parent, page_size, token } => {
                self.list_page(client, kind, parent, *page_size, token, true).await;
            }
            Op::Walk { kind, parent, page_size } => {
                self.walk(client, kind, parent, *page_size).await;
            }
            Op::Publish { topic, msgs } => {
                self.publish(client, topic, msgs, ab, timed.clone()).await;
            }
            Op::PublishMany { topic, count } => {
                let msgs = vec![MsgSpec { data: 1, attrs: 0 }; *count as usize];
                self.publish(client, topic, &msgs, ab, timed.clone()).await;
            }
            Op::Pull { sub, max, immediate } => {
                self.pull(client, sub, *max, *immediate, ab, None, timed.clone()).await;
            }
            Op::DrainPull { sub } => {
                for _ in 0..200 {
                    match self.pull(client, sub, 1000, true, 0, None, None).await {
                        Outcome::Ok(Resp::Pulled(r)) if !r.is_empty() => continue,
                        _ => break,
                    }
                }
            }
            Op::PullBg { slot, sub, max } => {
                let cancel = CancelHandle::new();
                self.bg.borrow_mut().insert(*slot, cancel.clone());
                let sim = Rc::clone(self);
                let (slot, sub, max) = (*slot, sub.clone(), *max);
                self.bg_pending.set(self.bg_pending.get() + 1);
                tokio::task::spawn_local(async move {
                    sim.pull(client, &sub, max, false, ab, Some(slot), Some(cancel)).await;
                    sim.bg.borrow_mut().remove(&slot);
                    sim.bg_pending.set(sim.bg_pending.get() - 1);
                });
            }
            Op::CancelBg { slot } => {
                let handle = self.bg.borrow().get(slot).cloned();
                if let Some(h) = handle {
                    self.log(client, Ev::CancelBg { slot: *slot });
                    h.cancel();
                }
            }
            Op::Ack { sub, sel } => {
                let ids = self.resolve(client, sub, sel);
                self.ack(client, sub, ids, ab, timed.clone()).await;
            }
            Op::ModAck { sub, sel, secs } => {
                let ids = self.resolve(client, sub, sel);
                self.modack(client, sub, ids, *secs, ab, timed.clone()).await;
            }
            Op::StreamOpen { slot, sub, max_msgs, max_bytes, policy, window, stall_after, stall_us } => {
                self.stream_open(client, *slot, sub, *max_msgs, *max_bytes, policy.clone(), *window, *stall_after, *stall_us);
            }
            Op::StreamSend { slot, ack, modack, modack_secs, raw_sub, raw_max_msgs, raw_max_bytes, extra_secs, secs_pattern, stream_secs } => {
                let sub = match self.streams.borrow().get(slot) {
                    Some(c) => c.sub.clone(),
                    None => return,
                };
                let acks = self.resolve(client, &sub, ack);
                let modacks = self.resolve(client, &sub, modack);
                let mut secs: Vec<i32> = if secs_pattern.is_empty() { vec![*modack_secs; modacks.len()] } else { (0..modacks.len()).map(|i| secs_pattern[i % secs_pattern.len()]).collect() };
                secs.extend(extra_secs.iter().cloned());
                let bad_id = |a: &String| a.is_empty() || !a.bytes().all(|b| b.is_ascii_digit()) || a.len() > 19;
                let hostile = !raw_sub.is_empty() || *raw_max_msgs != 0 || *raw_max_bytes != 0 || !extra_secs.is_empty() || acks.iter().any(bad_id) || modacks.iter().any(bad_id) || secs.iter().any(|x| *x < 0);
                self.stream_send_raw(client, *slot, acks, modacks, secs, hostile, Some((raw_sub.clone(), *raw_max_msgs, *raw_max_bytes, *stream_secs)));
            }
            Op::SleepUntilLeaseEnd { sub, nth, secs, offset_us, from_invoke } => {
                let t = self.hands.borrow().get(sub).and_then(|h| h.get(*nth as usize).map(|e| if *from_invoke { e.lo_us } else { e.t_us }));
                if let Some(t) = t {
                    let target = (t as i64 + (*secs as i64) * 1_000_000 + *offset_us).max(0) as u64;
                    let now = self.now_us();
                    if target > now {
                        tokio::time::sleep(Duration::from_micros(target - now)).await;
                    }
                }
            }
            Op::SleepUntilMultiple { period_us, offset_us } => {
                if *period_us > 0 {
                    let now = self.now_us();
                    let phase = now % *period_us;
                    let wait = if phase <= *offset_us { *offset_us - phase } else { *period_us - phase + *offset_us };
                    if wait > 0 {
                        tokio::time::sleep(Duration::from_micros(wait)).await;
                    }
                }
            }
            Op::StreamCloseReq { slot } => self.stream_close_req(client, *slot),
            Op::StreamDrop { slot } => self.stream_drop(client, *slot),
            Op::EndpointFaultsOff => {
                self.endpoint.borrow_mut().faults_off = true;
                self.log(client, Ev::EndpointFaultsOff);
            }
        }
    }

    // ------------------------------------------------------------------------------------------
    // Barriers, snapshots

    /// Waits until the system is quiescent: no harness delay pending and no activity (schedule
    /// points reached, events recorded) during a 20 ms virtual window.
    pub async fn barrier(&self, phase: u32) -> bool {
        let mut quiescent = false;
        for _ in 0..200 {
            let before = (hooks::activity(), self.events.borrow().len());
            tokio::time::sleep(Duration::from_millis(20)).await;
            let after = (hooks::activity(), self.events.borrow().len());
            if before == after && !hooks::long_stall_pending() {
                quiescent = true;
                break;
            }
        }
        self.log(0, Ev::Barrier { phase, quiescent });
        quiescent
    }

    pub async fn snapshot(&self) {
        let (_, subs, registry) = self.app.verif_parts();
        let names: Vec<String> = self.known_subs.borrow().iter().cloned().collect();
        for name in names {
            let parsed = match SubscriptionName::try_parse(&name) {
                Some(p) => p,
                None => continue,
            };
            match subs.get_subscription(&parsed) {
                Err(_) => {
                    self.log(0, Ev::Stats { sub: name, found: false, backlog: 0, outstanding: 0, topic: String::new() });
                }
                Ok(s) => match tokio::time::timeout(Duration::from_secs(30), s.get_stats()).await {
                    Ok(Ok(stats)) => {
                        self.log(
                            0,
                            Ev::Stats {
                                sub: name,
                                found: true,
                                backlog: stats.backlog_messages_count as u64,
                                outstanding: stats.outstanding_messages_count as u64,
                                topic: stats.topic_name.to_string(),
                            },
                        );
                    }
                    _ => {
                        self.log(0, Ev::Note { text: format!("stats unavailable for {name}") });
                    }
                },
            }
        }
        let mut reg: Vec<String> = registry.entries().iter().map(|(n, _)| n.to_string()).collect();
        reg.sort();
        self.log(0, Ev::Registry { subs: reg });
        if self.plan.has_tag("audit_lists") {
            // gRPC-level audit (client 0): Get every name we ever used, list every topic's subscriptions.
            let topics: Vec<String> = self.known_topics.borrow().iter().cloned().collect();
            for t in topics {
                let mut c = self.publisher();
                let request = pb::GetTopicRequest { topic: t.clone() };
                self.unary(0, Req::GetTopic { topic: t.clone() }, 0, None, HANG_LIMIT, async move { c.get_topic(request).await }, |x: pb::Topic| Resp::Topic(x.name)).await;
                self.walk(0, &ListKind::TopicSubs, &t, 1000).await;
            }
            let subs: Vec<String> = self.known_subs.borrow().iter().cloned().collect();
            for sname in subs {
                let mut c = self.subscriber();
                let request = pb::GetSubscriptionRequest { subscription: sname.clone() };
                self.unary(0, Req::GetSub { sub: sname.clone() }, 0, None, HANG_LIMIT, async move { c.get_subscription(request).await }, |x: pb::Subscription| Resp::Sub(sub_view(&x))).await;
            }
        }
    }

    // ------------------------------------------------------------------------------------------
    // Push endpoint

    fn behaviour_for(&self, sub: &str, msg_id: &str) -> (u32, Behaviour) {
        let mut ep = self.endpoint.borrow_mut();
        let attempt = {
            let a = ep.attempts.entry((sub.to_string(), msg_id.to_string())).or_insert(0);
            let cur = *a;
            *a += 1;
            cur
        };
        let plan = &self.plan.endpoint;
        let after = plan.after.clone().unwrap_or(Behaviour::Status(200));
        if ep.faults_off {
            return (attempt, Behaviour::Status(200));
        }
        if !plan.script.is_empty() {
            return (attempt, plan.script.get(attempt as usize).cloned().unwrap_or(after));
        }
        if attempt < plan.fault_attempts && !plan.palette.is_empty() {
            let h = mix3(self.plan.seed, crate::rng::fnv_str(msg_id) ^ crate::rng::fnv_str(sub), attempt as u64);
            return (attempt, plan.palette[(h % plan.palette.len() as u64) as usize].clone());
        }
        (attempt, after)
    }

    pub fn start_endpoint(self: &Rc<Self>, mut rx: mpsc::UnboundedReceiver<PushArrival>) {
        let sim = Rc::clone(self);
        tokio::task::spawn_local(async move {
            while let Some(arrival) = rx.recv().await {
                let sim2 = Rc::clone(&sim);
                let post = {
                    let mut ep = sim.endpoint.borrow_mut();
                    let p = ep.next_post;
                    ep.next_post += 1;
                    p
                };
                // Parse the payload the way a receiver following the documented format would.
                let body = arrival.request.body.clone();
                let parsed: Option<serde_json::Value> = serde_json::from_str(&body).ok();
                let mut parse_ok = false;
                let mut sub = String::new();
                let mut recv = Recv { ack_id: String::new(), msg_id: String::new(), data_hash: 0, data_len: 0, attrs_hash: 0, attrs_len: 0, token: String::new(), publish_time: None };
                let mut dupe = String::new();
                let mut attrs_out = BTreeMap::new();
                if let Some(v) = &parsed {
                    let m = &v["message"];
                    if let (Some(s), Some(data), Some(id)) = (v["subscription"].as_str(), m["data"].as_str(), m["message_id"].as_str()) {
                        if let Ok(bytes) = base64::engine::general_purpose::STANDARD.decode(data) {
                            parse_ok = true;
                            sub = s.to_string();
                            let mut attrs = std::collections::HashMap::new();
                            if let Some(obj) = m["attributes"].as_object() {
                                for (k, val) in obj {
                                    if let Some(sv) = val.as_str() {
                                        attrs.insert(k.clone(), sv.to_string());
                                        attrs_out.insert(k.clone(), sv.to_string());
                                    }
                                }
                            }
                            let (ah, al) = attrs_hash(&attrs);
                            recv = Recv {
                                ack_id: String::new(),
                                msg_id: id.to_string(),
                                data_hash: fnv(&bytes),
                                data_len: bytes.len() as u64,
                                attrs_hash: ah,
                                attrs_len: al,
                                token: token_of(&bytes, &attrs),
                                publish_time: None,
                            };
                            dupe = m["messageId"].as_str().unwrap_or("").to_string();
                        }
                    }
                }
                let content_type = arrival
                    .request
                    .headers
                    .iter()
                    .find(|(k, _)| k.eq_ignore_ascii_case("content-type"))
                    .map(|(_, v)| v.clone())
                    .unwrap_or_default();
                // Long attribute maps are not needed in the log; keep at most 4 entries.
                let attrs_small: BTreeMap<String, String> = attrs_out.into_iter().take(4).collect();
                let msg_key = recv.msg_id.clone();
                sim.log(
                    1000,
                    Ev::Post { post, url: arrival.request.url.clone(), sub: sub.clone(), parse_ok, recv, msg_id_dupe: dupe, content_type, attrs: attrs_small },
                );
                let (attempt, behaviour) = sim.behaviour_for(&sub, &msg_key);
                // Fault kind "broken body": the status line arrives, the response body behind it breaks off.
                // The property looks at the status only, so the oracle is told the status; a dispatcher that
                // reads the body before it decides sees an error here. Derived from the plan seed and the
                // (message, subscription, attempt) key, no PRNG draw; off once faults are off.
                let body_broken = !sim.endpoint.borrow().faults_off
                    && mix3(sim.plan.seed, crate::rng::fnv_str(&msg_key) ^ crate::rng::fnv_str(&sub), attempt as u64 ^ 0xB0D1_B0D1) % 3 == 0;
                let wire = move |code: u16| -> u16 {
                    if body_broken {
                        *crate::hooks::HOOKS.st.lock().unwrap().probes.entry("push_body_broken_sent").or_insert(0) += 1;
                        code + deltio::verif::PUSH_BODY_BROKEN
                    } else {
                        code
                    }
                };
                tokio::task::spawn_local(async move {
                    match behaviour {
                        Behaviour::Status(code) => {
                            sim2.log(1000, Ev::Answer { post, status: Some(code), never: false });
                            let _ = arrival.responder.send(Ok(wire(code)));
                        }
                        Behaviour::ConnErr => {
                            sim2.log(1000, Ev::Answer { post, status: None, never: false });
                            let _ = arrival.responder.send(Err("connection reset by peer".into()));
                        }
                        Behaviour::Delay(ms, code) => {
                            tokio::time::sleep(Duration::from_millis(ms)).await;
                            sim2.log(1000, Ev::Answer { post, status: Some(code), never: false });
                            let _ = arrival.responder.send(Ok(wire(code)));
                        }
                        Behaviour::Never => {
                            sim2.log(1000, Ev::Answer { post, status: None, never: true });
                            sim2.endpoint.borrow_mut().parked.push(arrival.responder);
                        }
                    }
                });
            }
        });
    }

    // ------------------------------------------------------------------------------------------
    // The run

    pub async fn run(self: &Rc<Self>) {
        let plan = self.plan.clone();
        if plan.knobs.push_interval_ms > 0 {
            let push_loop = self.app.push_loop(Duration::from_millis(plan.knobs.push_interval_ms as u64));
            tokio::spawn(push_loop.run());
        }
        if plan.knobs.pre_advance_us > 0 {
            tokio::time::sleep(Duration::from_micros(plan.knobs.pre_advance_us)).await;
        }
        if plan.has_tag("conn") {
            self.open_connection().await;
        }
        for (i, phase) in plan.phases.iter().enumerate() {
            let phase_no = i as u32;
            self.log(0, Ev::PhaseStart { phase: phase_no });
            let mut handles = Vec::new();
            for (ci, script) in phase.scripts.iter().enumerate() {
                let sim = Rc::clone(self);
                let script = script.clone();
                let client = (ci + 1) as u32;
                handles.push(tokio::task::spawn_local(async move {
                    for step in script.iter() {
                        sim.step(client, step).await;
                    }
                }));
            }
            for h in handles {
                let _ = h.await;
            }
            let _quiescent = self.barrier(phase_no).await;
            if phase.audit {
                if self.plan.has_tag("double_audit") {
                    // a second barrier before anything looks at the subscriptions: the statistics
                    // request itself goes through the subscription actor and makes it look at its
                    // leases, which would hide an expiry timer that did not fire
                    self.barrier(phase_no).await;
                }
                self.snapshot().await;
                if self.plan.has_tag("double_audit") {
                    self.barrier(phase_no).await;
                    self.snapshot().await;
                }
            }
            if phase.advance_us > 0 {
                self.log(0, Ev::Advance { us: phase.advance_us });
                tokio::time::sleep(Duration::from_micros(phase.advance_us)).await;
            }
        }
        if plan.final_drain {
            self.final_drain().await;
        }
        if plan.health_probe {
            self.health_probe().await;
        }
    }

    async fn stop_consumers(&self) {
        let bgs: Vec<CancelHandle> = self.bg.borrow().values().cloned().collect();
        for b in bgs {
            b.cancel();
        }
        let slots: Vec<u32> = self.streams.borrow().keys().cloned().collect();
        for s in slots {
            self.stream_drop(0, s);
        }
        tokio::time::sleep(Duration::from_millis(5)).await;
    }

    pub async fn final_drain(self: &Rc<Self>) {
        hooks::set_enabled(false);
        self.endpoint.borrow_mut().faults_off = true;
        self.log(0, Ev::DrainStart);
        self.stop_consumers().await;
        self.log(0, Ev::Advance { us: DRAIN_ADVANCE.as_micros() as u64 });
        tokio::time::sleep(DRAIN_ADVANCE).await;
        let interval = Duration::from_millis(self.plan.knobs.push_interval_ms as u64);
        for _pass in 0..6 {
            let mut got = 0usize;
            let names: Vec<String> = self.known_subs.borrow().iter().cloned().collect();
            for name in names.iter() {
                for _ in 0..500 {
                    match self.pull(9000, name, 1000, true, 0, None, None).await {
                        Outcome::Ok(Resp::Pulled(r)) if !r.is_empty() => {
                            got += r.len();
                            let ids = r.iter().map(|x| x.ack_id.clone()).collect();
                            self.ack(9000, name, ids, 0, None).await;
                        }
                        _ => break,
                    }
                }
            }
            // Let push rounds that are in progress finish.
            tokio::time::sleep(interval * 2 + Duration::from_millis(500)).await;
            if got == 0 {
                break;
            }
        }
        self.snapshot().await;
        self.log(0, Ev::DrainEnd);
    }

    pub async fn health_probe(self: &Rc<Self>) {
        hooks::set_enabled(false);
        self.log(0, Ev::HealthStart);
        let c = 9999;
        let t = "projects/health-probe/topics/health-topic".to_string();
        let s = "projects/health-probe/subscriptions/health-sub".to_string();
        self.step(c, &Step::new(Op::CreateTopic { topic: t.clone() })).await;
        self.step(c, &Step::new(Op::CreateSub { sub: s.clone(), topic: t.clone(), ack_deadline: 10, push: None })).await;
        self.step(c, &Step::new(Op::Publish { topic: t.clone(), msgs: vec![MsgSpec { data: 1, attrs: 1 }] })).await;
        self.step(c, &Step::new(Op::Pull { sub: s.clone(), max: 10, immediate: true })).await;
        self.step(c, &Step::new(Op::Ack { sub: s.clone(), sel: Sel { mine: true, pick: Pick::All, ..Sel::none() } })).await;
        // Existing resources must still be served: publish to every topic name we used, and
        // pull every subscription name we used (NOT_FOUND is a fine answer for deleted ones).
        let topics: Vec<String> = self.known_topics.borrow().iter().cloned().collect();
        for topic in topics {
            if topic == t {
                continue;
            }
            self.step(c, &Step::new(Op::Publish { topic, msgs: vec![MsgSpec { data: 1, attrs: 0 }] })).await;
        }
        let subs: Vec<String> = self.known_subs.borrow().iter().cloned().collect();
        for sub in subs {
            if sub == s {
                continue;
            }
            self.step(c, &Step::new(Op::Pull { sub, max: 1000, immediate: true })).await;
        }
        self.step(c, &Step::new(Op::DeleteSub { sub: s })).await;
        self.step(c, &Step::new(Op::DeleteTopic { topic: t })).await;
    }
}
