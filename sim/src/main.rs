mod batch;
mod checks;
mod gen;
mod guard;
mod hooks;
mod lin;
mod log;
mod model;
mod oracle;
mod oracle2;
mod plan;
mod rng;
mod runner;
mod world;

fn usage() -> ! {
    eprintln!(
        "usage:\n  deltio-sim run --check <ID> (--seed <N> | --plan <file>) [--tier quick|thorough] [--emit-plan] [--dump-log]\n  deltio-sim batch --check <ID> --tier quick|thorough [--runs N]\n  deltio-sim replay --check <ID> --file <replay.json>\n  deltio-sim determinism [--seeds N]"
    );
    std::process::exit(2)
}

fn main() {
    let args: Vec<String> = std::env::args().collect();
    if args.len() < 2 {
        usage();
    }
    let code = match args[1].as_str() {
        "run" => runner::child_main(&args[2..]),
        "batch" => batch::batch_main(&args[2..]),
        "replay" => batch::replay_main(&args[2..]),
        "determinism" => batch::determinism_main(&args[2..]),
        _ => usage(),
    };
    std::process::exit(code);
}
