//! Small deterministic PRNG and hashing helpers. Everything random in the simulator derives
//! from these; nothing reads OS entropy or a real clock.

#[inline]
pub fn mix(mut z: u64) -> u64 {
    z = z.wrapping_add(0x9E37_79B9_7F4A_7C15);
    z = (z ^ (z >> 30)).wrapping_mul(0xBF58_476D_1CE4_E5B9);
    z = (z ^ (z >> 27)).wrapping_mul(0x94D0_49BB_1331_11EB);
    z ^ (z >> 31)
}

#[inline]
pub fn mix2(a: u64, b: u64) -> u64 {
    mix(a ^ mix(b).rotate_left(17))
}

#[inline]
pub fn mix3(a: u64, b: u64, c: u64) -> u64 {
    mix2(mix2(a, b), c)
}

/// FNV-1a over bytes (stable across processes, unlike `RandomState`).
pub fn fnv(bytes: &[u8]) -> u64 {
    let mut h: u64 = 0xcbf2_9ce4_8422_2325;
    for b in bytes {
        h ^= *b as u64;
        h = h.wrapping_mul(0x0000_0100_0000_01B3);
    }
    h
}

pub fn fnv_str(s: &str) -> u64 {
    fnv(s.as_bytes())
}

/// SplitMix64 stream.
#[derive(Clone, Debug)]
pub struct Rng(pub u64);

impl Rng {
    pub fn new(seed: u64) -> Self {
        Rng(mix(seed ^ 0xD1B5_4A32_D192_ED03))
    }

    pub fn next(&mut self) -> u64 {
        self.0 = self.0.wrapping_add(0x9E37_79B9_7F4A_7C15);
        let mut z = self.0;
        z = (z ^ (z >> 30)).wrapping_mul(0xBF58_476D_1CE4_E5B9);
        z = (z ^ (z >> 27)).wrapping_mul(0x94D0_49BB_1331_11EB);
        z ^ (z >> 31)
    }

    /// Uniform in `0..n` (n > 0).
    pub fn below(&mut self, n: u64) -> u64 {
        debug_assert!(n > 0);
        self.next() % n
    }

    /// Uniform in `lo..=hi`.
    pub fn range(&mut self, lo: u64, hi: u64) -> u64 {
        lo + self.below(hi - lo + 1)
    }

    pub fn chance(&mut self, permille: u64) -> bool {
        self.below(1000) < permille
    }

    pub fn pick<'a, T>(&mut self, items: &'a [T]) -> &'a T {
        &items[self.below(items.len() as u64) as usize]
    }

    pub fn fork(&mut self, tag: u64) -> Rng {
        Rng::new(mix2(self.next(), tag))
    }
}
