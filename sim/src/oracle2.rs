//! More rules: C10 (atomic namespaces), C11 (deletion consistency), C13 (listing),
//! C14 (push), C16 (abandonment audit), C17 (malformed requests).
use crate::lin;
use crate::log::*;
use crate::model::*;
use crate::oracle::{Ctx, Violation, SLACK_US};
use crate::plan::ListKind;
use base64::Engine;
use std::collections::{BTreeMap, BTreeSet, HashMap, HashSet};

fn v(rule: &str, key: impl Into<String>, detail: impl Into<String>) -> Violation {
    Violation { rule: rule.to_string(), key: key.into(), detail: detail.into() }
}

/// Status rules that need no scenario tag: a ModifyAckDeadline with a negative deadline must not
/// be accepted (C05); a CreateSubscription across projects must not succeed (C10).
fn rule_status(ctx: &Ctx, out: &mut Vec<Violation>) {
    for c in ctx.m.calls.values() {
        match (&c.req, c.code()) {
            (Req::ModAck { ack_ids, secs, sub }, Some(OK)) if *secs < 0 && !ack_ids.is_empty() && !definitely_malformed_name(sub) => {
                out.push(v("C05.reject", "negative_accepted", format!("ModifyAckDeadline with ack_deadline_seconds {} on {} was answered OK instead of INVALID_ARGUMENT", secs, sub)));
            }
            (Req::ModAck { ack_ids, sub, .. }, Some(OK)) if ack_ids.iter().any(|a| definitely_malformed_ack_id(a)) && !definitely_malformed_name(sub) => {
                out.push(v("C05.reject", "malformed_id_accepted", format!("ModifyAckDeadline naming a malformed ack ID on {} was answered OK instead of INVALID_ARGUMENT", sub)));
            }
            (Req::CreateSub { sub, topic, .. }, Some(OK)) => {
                let ps = sub.strip_prefix("projects/").and_then(|r| r.split('/').next());
                let pt = topic.strip_prefix("projects/").and_then(|r| r.split('/').next());
                if let (Some(a), Some(b)) = (ps, pt) {
                    if a != b && sub.contains("/subscriptions/") && topic.contains("/topics/") {
                        out.push(v("C10.project", "cross_project_created", format!("CreateSubscription of {} on topic {} (another project) succeeded instead of INVALID_ARGUMENT", sub, topic)));
                    }
                }
            }
            _ => {}
        }
    }
}

/// C10.conflict: a create / delete of a topic or subscription answered with a "the resource went
/// away under me" status (FAILED_PRECONDITION / INTERNAL) although no other create or delete was
/// in flight during the call (and none with an open-ended effect before it: unanswered, or abandoned
/// with no quiescent barrier since): as a map operation it had to answer OK, ALREADY_EXISTS or NOT_FOUND.
fn rule_unprovoked_conflict(ctx: &Ctx, out: &mut Vec<Violation>) {
    let m = ctx.m;
    let is_mutation = |r: &Req| matches!(r, Req::CreateSub { .. } | Req::DeleteSub { .. } | Req::CreateTopic { .. } | Req::DeleteTopic { .. });
    let muts: Vec<&Call> = m.calls.values().filter(|c| is_mutation(&c.req)).collect();
    for c in muts.iter() {
        if !matches!(c.out, Some(Outcome::Err(FAILED_PRECONDITION, _)) | Some(Outcome::Err(INTERNAL, _))) {
            continue;
        }
        let (inv, ret) = (c.inv_seq, c.ret_seq.unwrap_or(u64::MAX));
        // Until when another create / delete may still be at work: its answer; for one whose client
        // went away, the first quiescent barrier after that (the server has come to rest: whatever
        // the request was going to do is done); for one that never returned, for ever.
        let settled_end = |o: &Call| -> u64 {
            match &o.out {
                Some(Outcome::Ok(_)) | Some(Outcome::Err(_, _)) => o.ret_seq.unwrap_or(u64::MAX),
                Some(_) => match o.ret_seq {
                    Some(r) => m.barriers.iter().find(|b| b.quiescent && b.seq > r).map(|b| b.seq).unwrap_or(u64::MAX),
                    None => u64::MAX,
                },
                None => u64::MAX,
            }
        };
        let provoked = muts.iter().any(|o| o.id != c.id && o.inv_seq < ret && settled_end(o) > inv);
        if provoked {
            continue;
        }
        let what = match &c.req {
            Req::CreateSub { sub, .. } => format!("CreateSubscription({sub})"),
            Req::DeleteSub { sub } => format!("DeleteSubscription({sub})"),
            Req::CreateTopic { topic } => format!("CreateTopic({topic})"),
            Req::DeleteTopic { topic } => format!("DeleteTopic({topic})"),
            _ => continue,
        };
        let kind = what.split('(').next().unwrap_or("").to_string();
        out.push(v("C10.conflict", format!("unprovoked:{kind}"), format!("{} (call {}) was answered {:?} although no other create or delete overlapped it", what, c.id, c.out)));
    }
}

/// C07.starved: in a plan whose requests share one real client connection (tag "conn") and in which
/// no stall is injected, a request that is not a blocking Pull is answered without the virtual clock
/// moving: nothing on its path waits for a timer, so if a second of virtual time passes before the
/// answer, the request waited for other requests of its connection to end (or was never served).
fn rule_conn_starved(ctx: &Ctx, out: &mut Vec<Violation>) {
    if !ctx.plan.has_tag("conn") || ctx.plan.knobs.stall_permille > 0 || ctx.plan.knobs.long_stall_permille > 0 {
        return;
    }
    let m = ctx.m;
    let end_t = m.calls.values().filter_map(|c| c.ret_t).max().unwrap_or(0);
    for c in m.calls.values() {
        let what = match &c.req {
            Req::GetSub { .. } => "GetSubscription",
            Req::Ack { .. } => "Acknowledge",
            Req::Pull { immediate: true, .. } => "Pull(return_immediately)",
            Req::Publish { .. } => "Publish",
            _ => continue,
        };
        if c.abandon_at > 0 {
            continue;
        }
        let waited = match c.ret_t {
            Some(t) => t.saturating_sub(c.inv_t),
            None => end_t.saturating_sub(c.inv_t).max(1_000_001),
        };
        if waited > 1_000_000 {
            let parked = m.calls.values().filter(|o| matches!(o.req, Req::Pull { immediate: false, .. }) && o.inv_seq < c.inv_seq && o.ret_seq.map(|r| r > c.inv_seq).unwrap_or(true)).count();
            out.push(v("C07.starved", format!("conn_starved:{what}"), format!("{} (call {}) on a connection with {} parked Pulls was {} after {} virtual us", what, c.id, parked, if c.ret_t.is_some() { "answered only" } else { "still unanswered" }, waited)));
        }
    }
}

/// C05.refused / C02.refused: an Acknowledge or ModifyAckDeadline addressed to a subscription that
/// exists (created once, never the target of a DeleteSubscription, its request well-formed) is
/// served: it is not answered with an error status.
fn rule_refused(ctx: &Ctx, out: &mut Vec<Violation>) {
    let m = ctx.m;
    for c in m.calls.values() {
        let (sub, ids, what, rule) = match &c.req {
            Req::ModAck { sub, ack_ids, secs } if *secs >= 0 => (sub, ack_ids, "ModifyAckDeadline", "C05.refused"),
            Req::Ack { sub, ack_ids } => (sub, ack_ids, "Acknowledge", "C02.refused"),
            _ => continue,
        };
        let code = match &c.out {
            Some(Outcome::Err(code, _)) => *code,
            _ => continue,
        };
        if code == INVALID_ARGUMENT || ids.iter().any(|a| definitely_malformed_ack_id(a)) || definitely_malformed_name(sub) {
            continue;
        }
        let inst = match m.unique_sub(sub) {
            Some(i) => i,
            None => continue,
        };
        if m.sub_delete_ever(sub) || inst.established_seq > c.inv_seq {
            continue;
        }
        out.push(v(rule, format!("error:{what}"), format!("{what} call {} on {} (exists, never deleted) was answered with status {}", c.id, sub, code)));
    }
}

/// C10.residue: a CreateSubscription that failed (whatever the status) leaves nothing behind. Judged
/// at audits for names that no create ever created successfully and no create was abandoned on.
/// C17.registry: the push registry only holds subscriptions that exist with a push endpoint.
fn rule_residue(ctx: &Ctx, out: &mut Vec<Violation>) {
    let m = ctx.m;
    for c in m.calls.values().filter(|c| c.client == 0) {
        if let (Req::GetSub { sub }, Some(Outcome::Ok(_))) = (&c.req, &c.out) {
            let creates = match m.sub_creates.get(sub) {
                Some(cs) => cs,
                None => continue,
            };
            let all_failed = creates.iter().all(|cc| matches!(m.calls[cc].out, Some(Outcome::Err(_, _))));
            let all_done = creates.iter().all(|cc| m.calls[cc].ret_seq_or_max() < c.inv_seq);
            if all_failed && all_done {
                let codes: Vec<Code> = creates.iter().filter_map(|cc| m.calls[cc].code()).collect();
                out.push(v("C10.residue", "failed_create_left_subscription", format!("every CreateSubscription of {} failed (codes {:?}), yet GetSubscription finds it at a later quiescent audit", sub, codes)));
            }
        }
    }
    for (seq, reg) in m.registries.iter() {
        for name in reg.iter() {
            let ok = m.sub_creates.get(name).map(|cs| cs.iter().any(|cc| m.calls[cc].maybe_effective() && matches!(&m.calls[cc].req, Req::CreateSub { push: Some(_), .. }))).unwrap_or(false);
            let pending = m.sub_creates.get(name).map(|cs| cs.iter().any(|cc| m.calls[cc].effect_end_seq() > *seq && m.calls[cc].inv_seq < *seq)).unwrap_or(false);
            if !ok && !pending {
                out.push(v("C17.registry", "stale_push_registration", format!("the push registry holds {} at a quiescent point although no accepted create gave it a push endpoint", name)));
            }
        }
    }
}

pub fn evaluate_more(ctx: &Ctx, out: &mut Vec<Violation>) {
    rule_status(ctx, out);
    rule_unprovoked_conflict(ctx, out);
    rule_refused(ctx, out);
    rule_conn_starved(ctx, out);
    rule_residue(ctx, out);
    rule_c14(ctx, out);
    rule_c13(ctx, out);
    rule_c10(ctx, out);
    rule_c11(ctx, out);
    rule_c16(ctx, out);
    rule_c17(ctx, out);
}

// =================================================================================================
// C14: push
// =================================================================================================

fn rule_c14(ctx: &Ctx, out: &mut Vec<Violation>) {
    let m = ctx.m;
    if m.posts.is_empty() && !ctx.plan.has_tag("push") {
        return;
    }
    for p in m.posts.values() {
        if !p.parse_ok {
            out.push(v("C14.payload", "unparsable", format!("POST #{} to {} is not the documented JSON (subscription, message.data base64, message.message_id)", p.post, p.url)));
            continue;
        }
        if p.msg_id_dupe != p.recv.msg_id {
            out.push(v("C14.payload", "messageId", format!("POST #{}: messageId {:?} != message_id {:?}", p.post, p.msg_id_dupe, p.recv.msg_id)));
        }
        if !p.content_type.to_ascii_lowercase().contains("json") {
            out.push(v("C14.payload", "content_type", format!("POST #{}: content type {:?}", p.post, p.content_type)));
        }
        // The named subscription must be one that was created with a push endpoint, and the POST
        // must go to that endpoint.
        let creates = m.sub_creates.get(&p.sub);
        let mut push_instance = false;
        let mut any_instance = false;
        let mut endpoint_ok = false;
        if let Some(cs) = creates {
            for c in cs {
                let call = &m.calls[c];
                if !call.maybe_effective() {
                    continue;
                }
                any_instance = true;
                if let Req::CreateSub { push: Some(ps), .. } = &call.req {
                    push_instance = true;
                    if ps.endpoint.trim() == p.url {
                        endpoint_ok = true;
                    }
                }
            }
        }
        if !any_instance {
            out.push(v("C14.payload", "unknown_subscription", format!("POST #{} names subscription {:?} which was never created", p.post, p.sub)));
        } else if !push_instance {
            out.push(v("C14.nonpush", "nonpush", format!("POST #{} names {} which has no push endpoint", p.post, p.sub)));
        } else if !endpoint_ok {
            out.push(v("C14.payload", "wrong_endpoint", format!("POST #{} for {} went to {}", p.post, p.sub, p.url)));
        }
        // C14.stop: no POST for a deleted subscription starts after the barrier following the delete.
        if let Some(dels) = m.sub_deletes.get(&p.sub) {
            if m.unique_sub(&p.sub).is_some() {
                for dc in dels {
                    let del = &m.calls[dc];
                    if del.returned_ok() {
                        if let Some(b) = m.barrier_after(del.ret_seq.unwrap()) {
                            if p.seq > b.seq {
                                out.push(v("C14.stop", "post_after_delete", format!("POST #{} for {} at {}us, after DeleteSubscription returned (seq {}) and the system was quiescent (seq {})", p.post, p.sub, p.t, del.ret_seq.unwrap(), b.seq)));
                            }
                        }
                    }
                }
            }
        }
    }
    // C14.stop, key round_continues: once DeleteSubscription has returned, the push round that is
    // working through a page stops (the round watches the deletion signal; the POST it was about
    // to start may still go out, so up to two are tolerated).
    for (sub, dels) in m.sub_deletes.iter() {
        let inst = match m.unique_sub(sub) {
            Some(i) if i.push.is_some() => i,
            _ => continue,
        };
        let _ = inst;
        if m.sub_creates.get(sub).map(|c| c.len()).unwrap_or(0) != 1 {
            continue;
        }
        if let Some(del) = dels.iter().map(|d| &m.calls[d]).find(|d| d.returned_ok()) {
            let after: Vec<&PostInfo> = m.posts.values().filter(|p| p.sub == *sub && p.seq > del.ret_seq.unwrap()).collect();
            if after.len() > 2 {
                out.push(v("C14.stop", "round_continues", format!("{}: {} POSTs were started after DeleteSubscription had returned (seq {}), the first at {}us", sub, after.len(), del.ret_seq.unwrap(), after.iter().map(|p| p.t).min().unwrap_or(0))));
            }
        }
    }
    // C14.accept: an accepting answer inside the lease settles the message for good.
    for ((sub, msg), list) in m.deliveries_by_key.iter() {
        if list.len() < 2 {
            continue;
        }
        let inst = match m.unique_sub(sub) {
            Some(i) if i.push.is_some() => i,
            _ => continue,
        };
        for (i, &a) in list.iter().enumerate() {
            let d = &m.deliveries[a];
            if !matches!(d.via, Via::Push { .. }) {
                continue;
            }
            for &b in list.iter().skip(i + 1).take(crate::oracle::PAIR_WINDOW) {
                let d2 = &m.deliveries[b];
                // the later delivery's earliest hand-out, as a sequence number when known
                let from = if d2.lo_seq > 0 { d2.lo_seq } else { first_seq_at_or_after(m, d2.lo_t) };
                let lease = ctx.lease_at(d, inst.deadline_us(), from, d2.recv_seq);
                if let Some((aseq, at)) = lease.acked_at {
                    let after = if d2.lo_seq > 0 { aseq < d2.lo_seq } else { at < d2.lo_t };
                    if after {
                        out.push(v("C14.accept", "posted_again", format!("{}: message {} was accepted by the endpoint (settled by {}us) and delivered again at {}us", sub, msg, at, d2.recv_t)));
                    }
                }
            }
        }
    }
    // C14.retry / C14.reject: bounded liveness after faults stop.
    if let Some((fseq, ft)) = m.faults_off {
        let interval_us = ctx.plan.knobs.push_interval_ms as u64 * 1000;
        for name in m.sub_creates.keys() {
            // the current instance of the name (a name deleted and re-created counts from its last
            // create; when creates and deletes of the name overlapped, the instance that every
            // linearization of its history leaves in place)
            let inst = match m.last_sub(name).or_else(|| {
                let end = m.health_start.map(|h| h.0).or(m.drain_start.map(|d| d.0)).unwrap_or(u64::MAX);
                match lin::state_at(ctx, true, name, end) {
                    lin::NameState::Present(cc) => {
                        let create = &m.calls[&cc];
                        match (&create.req, create.returned_ok()) {
                            (Req::CreateSub { sub, topic, ack_deadline, push }, true) => Some(SubInst { name: sub.clone(), topic: topic.clone(), ack_deadline_req: *ack_deadline, push: push.clone(), create_call: cc, established_seq: create.ret_seq.unwrap() }),
                            _ => None,
                        }
                    }
                    _ => None,
                }
            }) {
                Some(i) if i.push.is_some() => i,
                _ => continue,
            };
            let deleted_after = m.sub_deletes.get(name).map(|d| d.iter().any(|dc| m.calls[dc].inv_seq > m.calls[&inst.create_call].inv_seq)).unwrap_or(false);
            if deleted_after || m.unique_topic(&inst.topic).is_none() {
                continue;
            }
            // A deleted topic does not end the obligation for what the subscription already holds:
            // only publishes that had returned before any DeleteTopic was invoked count then.
            let first_topic_delete = m.topic_deletes.get(&inst.topic).map(|d| d.iter().map(|dc| m.calls[dc].inv_seq).min().unwrap_or(u64::MAX)).unwrap_or(u64::MAX);
            if inst.deadline_us() > 600_000_000 {
                continue;
            }
            let create = &m.calls[&inst.create_call];
            // the run must have lasted long enough after faults stopped
            let bound = ft + interval_us + inst.deadline_us() + 2 * SLACK_US + 1_100_000;
            let horizon = m.health_start.map(|h| h.1).or(m.drain_start.map(|d| d.1)).unwrap_or(m.end_t);
            if horizon < bound {
                continue;
            }
            // Never-answered attempts keep their lease; they push the bound out by one lease.
            for p in m.published.iter() {
                if p.topic != inst.topic || p.stage != Stage::Run {
                    continue;
                }
                let pc = &m.calls[&p.call];
                let id = match (&p.msg_id, pc.returned_ok()) {
                    (Some(id), true) => id,
                    _ => continue,
                };
                if !(inst.established_seq < pc.inv_seq) || pc.ret_seq.unwrap() > fseq || pc.ret_seq.unwrap() > first_topic_delete {
                    continue;
                }
                // consumers other than the push loop may have taken it (pull on a push subscription)
                let taken_elsewhere = m.deliveries_by_key.get(&(name.clone(), id.clone())).map(|l| l.iter().any(|&i| !matches!(m.deliveries[i].via, Via::Push { .. }) && m.deliveries[i].recv_t <= bound)).unwrap_or(false);
                if taken_elsewhere {
                    continue;
                }
                let posts: Vec<&PostInfo> = m.posts.values().filter(|x| x.sub == *name && x.recv.msg_id == *id).collect();
                let accepted: Vec<&&PostInfo> = posts.iter().filter(|x| x.accepted() && x.t <= bound).collect();
                if accepted.is_empty() {
                    let statuses: Vec<String> = posts.iter().map(|x| format!("{:?}@{}us", x.answer.map(|a| a.2), x.t)).collect();
                    out.push(v(
                        "C14.retry",
                        if posts.is_empty() { "never_posted" } else { "not_retried" },
                        format!("{}: message {} had no accepted POST by {}us (faults stopped at {}us, interval {}us, lease {}us); attempts: [{}]", name, id, bound, ft, interval_us, inst.deadline_us(), statuses.join(", ")),
                    ));
                }
            }
        }
    }
}

fn first_seq_at_or_after(m: &Model, t: u64) -> u64 {
    // events are in time order: binary search
    let i = m.events.partition_point(|e| e.t_us < t);
    m.events.get(i).map(|e| e.seq).unwrap_or(u64::MAX)
}

// =================================================================================================
// C13: listing and pagination
// =================================================================================================

fn effective_page_size(requested: i32) -> usize {
    match requested {
        0 => 20,
        x if x > 1000 => 1000,
        x => x as usize,
    }
}

fn token_decodable(token: &str) -> Option<u64> {
    let bytes = base64::engine::general_purpose::STANDARD.decode(token).ok()?;
    let arr: [u8; 8] = bytes.try_into().ok()?;
    Some(u64::from_ne_bytes(arr))
}

/// Names that certainly exist / may exist under a listing parent at sequence number `seq`,
/// with the real-time partial order of their creation.
struct Expected {
    /// name -> (create invoke seq, create return seq) of the instance alive at `seq`
    certain: BTreeMap<String, (u64, u64)>,
    /// names whose presence is uncertain (operations in flight / abandoned / overlapping)
    uncertain: BTreeSet<String>,
}

fn project_of(name: &str) -> Option<&str> {
    let rest = name.strip_prefix("projects/")?;
    rest.split('/').next()
}

fn expected_names(ctx: &Ctx, kind: &ListKind, parent: &str, seq: u64) -> Option<Expected> {
    let m = ctx.m;
    let mut certain = BTreeMap::new();
    let mut uncertain = BTreeSet::new();
    match kind {
        ListKind::Topics => {
            let project = parent.strip_prefix("projects/")?;
            for name in m.topic_creates.keys() {
                if project_of(name) != Some(project) {
                    continue;
                }
                match lin::state_at(ctx, false, name, seq) {
                    lin::NameState::Absent => {}
                    lin::NameState::Present(c) => {
                        let call = &m.calls[&c];
                        certain.insert(name.clone(), (call.inv_seq, call.ret_seq_or_max()));
                    }
                    lin::NameState::Unknown => {
                        uncertain.insert(name.clone());
                    }
                }
            }
        }
        ListKind::Subs => {
            let project = parent.strip_prefix("projects/")?;
            for name in m.sub_creates.keys() {
                if project_of(name) != Some(project) {
                    continue;
                }
                match lin::state_at(ctx, true, name, seq) {
                    lin::NameState::Absent => {}
                    lin::NameState::Present(c) => {
                        let call = &m.calls[&c];
                        certain.insert(name.clone(), (call.inv_seq, call.ret_seq_or_max()));
                    }
                    lin::NameState::Unknown => {
                        uncertain.insert(name.clone());
                    }
                }
            }
        }
        ListKind::TopicSubs => {
            // the topic itself must be certainly present, with a single instance
            let tcall = match lin::state_at(ctx, false, parent, seq) {
                lin::NameState::Present(c) => c,
                _ => return None,
            };
            let tcreate = &m.calls[&tcall];
            for name in m.sub_creates.keys() {
                match lin::state_at(ctx, true, name, seq) {
                    lin::NameState::Absent => {}
                    lin::NameState::Present(c) => {
                        let call = &m.calls[&c];
                        if let Req::CreateSub { topic, .. } = &call.req {
                            if topic != parent {
                                continue;
                            }
                        }
                        // created on *this* instance of the topic?
                        if call.inv_seq > tcreate.ret_seq_or_max() {
                            certain.insert(name.clone(), (call.inv_seq, call.ret_seq_or_max()));
                        } else if call.ret_seq_or_max() < tcreate.inv_seq {
                            // created on an earlier instance of the topic name: orphan, not listed
                        } else {
                            uncertain.insert(name.clone());
                        }
                    }
                    lin::NameState::Unknown => {
                        // only relevant if some create of it targeted this topic
                        let targets = m.sub_creates[name].iter().any(|c| matches!(&m.calls[c].req, Req::CreateSub { topic, .. } if topic == parent));
                        if targets {
                            uncertain.insert(name.clone());
                        }
                    }
                }
            }
        }
    }
    Some(Expected { certain, uncertain })
}

fn rule_c13(ctx: &Ctx, out: &mut Vec<Violation>) {
    let m = ctx.m;
    for c in m.calls.values() {
        match (&c.req, &c.out) {
            (Req::Walk { kind, parent, page_size }, Some(Outcome::Ok(Resp::Walk(pages)))) => {
                let kind_name = format!("{:?}", kind);
                if *page_size < 0 {
                    if pages.len() != 1 || pages[0].code != INVALID_ARGUMENT {
                        out.push(v("C13.reject", format!("negative_size:{kind_name}"), format!("{:?} walk of {} with page_size {} was not rejected with INVALID_ARGUMENT: {:?}", kind, parent, page_size, pages.first().map(|p| p.code))));
                    }
                    continue;
                }
                // every page OK, sizes bounded, termination
                let eff = effective_page_size(*page_size);
                let mut bad_status = false;
                for p in pages.iter() {
                    if p.code != OK {
                        bad_status = true;
                    }
                    if p.names.len() > eff {
                        out.push(v("C13.size", format!("page_too_big:{kind_name}"), format!("{:?} walk of {} page_size {}: a page has {} entries (effective size {})", kind, parent, page_size, p.names.len(), eff)));
                    }
                }
                if bad_status {
                    // NOT_FOUND for a missing topic etc. is judged by C10; a walk that was cut
                    // short by an error is not a listing to compare.
                    continue;
                }
                if pages.last().map(|p| !p.next.is_empty()).unwrap_or(true) {
                    out.push(v("C13.end", format!("no_end:{kind_name}"), format!("{:?} walk of {} page_size {} did not end after {} pages", kind, parent, page_size, pages.len())));
                    continue;
                }
                // the walk must not overlap any create/delete (the property assumes none)
                if overlaps_mutation(ctx, c.inv_seq, c.ret_seq.unwrap()) {
                    continue;
                }
                let exp = match expected_names(ctx, kind, parent, c.inv_seq) {
                    Some(e) => e,
                    None => continue,
                };
                let got: Vec<&String> = pages.iter().flat_map(|p| p.names.iter()).collect();
                let mut seen = HashSet::new();
                for g in got.iter() {
                    if !seen.insert(g.as_str()) {
                        out.push(v("C13.walk", format!("duplicate:{kind_name}"), format!("{:?} walk of {}: {} listed twice", kind, parent, g)));
                    }
                    if !exp.certain.contains_key(g.as_str()) && !exp.uncertain.contains(g.as_str()) {
                        // (a subscription whose create overlapped a delete of the same name: the known attach-after-detach defect)
                        let racing = matches!(kind, ListKind::TopicSubs)
                            && m.sub_creates.get(g.as_str()).map(|cs| cs.iter().any(|cc| m.sub_deletes.get(g.as_str()).map(|ds| ds.iter().any(|dc| m.calls[cc].inv_seq < m.calls[dc].effect_end_seq() && m.calls[dc].inv_seq < m.calls[cc].effect_end_seq())).unwrap_or(false))).unwrap_or(false);
                        out.push(v("C13.walk", format!("unexpected:{kind_name}{}", if racing { ":create_overlaps_delete" } else { "" }), format!("{:?} walk of {} (page_size {}): {} listed but it does not exist there", kind, parent, page_size, g)));
                    }
                }
                for name in exp.certain.keys() {
                    if !seen.contains(name.as_str()) {
                        out.push(v("C13.walk", format!("missing:{kind_name}"), format!("{:?} walk of {} (page_size {}): {} exists but was not listed ({} listed over {} pages)", kind, parent, page_size, name, got.len(), pages.len())));
                    }
                }
                // creation order: if a's create returned before b's create was invoked, a precedes b
                let pos: HashMap<&str, usize> = got.iter().enumerate().map(|(i, g)| (g.as_str(), i)).collect();
                for (a, (_ai, ar)) in exp.certain.iter() {
                    for (b, (bi, _br)) in exp.certain.iter() {
                        if ar < bi {
                            if let (Some(pa), Some(pb)) = (pos.get(a.as_str()), pos.get(b.as_str())) {
                                if pa > pb {
                                    out.push(v("C13.walk", format!("order:{kind_name}"), format!("{:?} walk of {}: {} (created first) listed after {}", kind, parent, a, b)));
                                }
                            }
                        }
                    }
                }
            }
            (Req::ListPage { kind, parent, page_size, token }, Some(o)) => {
                let kind_name = format!("{:?}", kind);
                let code = match o.code() {
                    Some(c) => c,
                    None => continue,
                };
                let names: Vec<String> = match o {
                    Outcome::Ok(Resp::Names(n, _)) => n.clone(),
                    Outcome::Ok(Resp::Subs(sv, _)) => sv.iter().map(|x| x.name.clone()).collect(),
                    _ => vec![],
                };
                let decodable = token.is_empty() || token_decodable(token).is_some();
                if *page_size < 0 || !decodable {
                    if code != INVALID_ARGUMENT {
                        out.push(v("C13.reject", format!("not_rejected:{kind_name}"), format!("{:?} page of {} with page_size {} token {:?} returned code {} instead of INVALID_ARGUMENT", kind, parent, page_size, token, code)));
                    }
                    continue;
                }
                // decodable token, non-negative size: must be OK (or a C10 matter for a missing
                // parent) and a contiguous slice of the full listing
                if code == NOT_FOUND || code == INVALID_ARGUMENT && !parent.starts_with("projects/") {
                    continue;
                }
                if code != OK {
                    if !overlaps_mutation(ctx, c.inv_seq, c.ret_seq.unwrap()) {
                        out.push(v("C13.forged", format!("status:{kind_name}"), format!("{:?} page of {} with page_size {} and decodable token {:?} returned code {}", kind, parent, page_size, token, code)));
                    }
                    continue;
                }
                if names.len() > effective_page_size(*page_size) {
                    out.push(v("C13.size", format!("page_too_big:{kind_name}"), format!("{:?} page of {} page_size {}: {} entries", kind, parent, page_size, names.len())));
                }
                if overlaps_mutation(ctx, c.inv_seq, c.ret_seq.unwrap()) {
                    continue;
                }
                if let Some(exp) = expected_names(ctx, kind, parent, c.inv_seq) {
                    if !exp.uncertain.is_empty() {
                        continue;
                    }
                    for n in names.iter() {
                        if !exp.certain.contains_key(n) {
                            out.push(v("C13.forged", format!("unexpected:{kind_name}"), format!("{:?} page of {} (token {:?}): {} listed but does not exist there", kind, parent, token, n)));
                        }
                    }
                    let offset = if token.is_empty() { 0 } else { token_decodable(token).unwrap() };
                    let total = exp.certain.len() as u64;
                    let want = (total.saturating_sub(offset)).min(effective_page_size(*page_size) as u64);
                    if names.len() as u64 != want {
                        out.push(v("C13.forged", format!("slice:{kind_name}"), format!("{:?} page of {} (offset {} of {} entries, page_size {}): {} entries returned, expected {}", kind, parent, offset, total, page_size, names.len(), want)));
                    }
                }
            }
            _ => {}
        }
    }
}

/// Does any create/delete overlap the window [from, to] (sequence numbers)?
fn overlaps_mutation(ctx: &Ctx, from: u64, to: u64) -> bool {
    ctx.m.calls.values().any(|c| {
        matches!(c.req, Req::CreateSub { .. } | Req::DeleteSub { .. } | Req::CreateTopic { .. } | Req::DeleteTopic { .. })
            && c.inv_seq < to
            && (c.ret_seq_or_max() > from || !matches!(c.out, Some(Outcome::Ok(_)) | Some(Outcome::Err(_, _))))
    })
}

// =================================================================================================
// C10: namespaces are atomic maps (per-name linearizability)
// =================================================================================================

fn rule_c10(ctx: &Ctx, out: &mut Vec<Violation>) {
    if !ctx.plan.has_tag("names") {
        return;
    }
    let m = ctx.m;
    let mut topic_names: BTreeSet<String> = m.topic_creates.keys().cloned().collect();
    let mut sub_names: BTreeSet<String> = m.sub_creates.keys().cloned().collect();
    for c in m.calls.values() {
        match &c.req {
            Req::GetTopic { topic } | Req::DeleteTopic { topic } | Req::Publish { topic, .. } => {
                topic_names.insert(topic.clone());
            }
            Req::GetSub { sub } | Req::DeleteSub { sub } | Req::Pull { sub, .. } | Req::Ack { sub, .. } | Req::ModAck { sub, .. } => {
                sub_names.insert(sub.clone());
            }
            _ => {}
        }
    }
    for name in topic_names {
        if let Some(problem) = lin::check_name(ctx, false, &name) {
            out.push(v("C10.lin", problem.key, format!("topic name {}: {}", name, problem.detail)));
        }
    }
    for name in sub_names {
        if let Some(problem) = lin::check_name(ctx, true, &name) {
            out.push(v("C10.lin", problem.key, format!("subscription name {}: {}", name, problem.detail)));
        }
    }
    // C10.echo for fields other than the deadline (the deadline is the register value of the
    // linearizability check): name, push endpoint, attributes, OIDC fields.
    for c in m.calls.values() {
        let views: Vec<&SubView> = match &c.out {
            Some(Outcome::Ok(Resp::Sub(sv))) => vec![sv],
            Some(Outcome::Ok(Resp::Subs(list, _))) => list.iter().collect(),
            _ => continue,
        };
        for sv in views {
            // find the create with this name and this (unique) deadline
            let creates = match m.sub_creates.get(&sv.name) {
                Some(cs) => cs,
                None => {
                    out.push(v("C10.echo", "unknown_name", format!("call {} returned subscription {:?} that was never created", c.id, sv.name)));
                    continue;
                }
            };
            let matching: Vec<&Call> = creates.iter().map(|x| &m.calls[x]).filter(|x| matches!(&x.req, Req::CreateSub { ack_deadline, .. } if (*ack_deadline).max(10) == sv.ack_deadline) && x.maybe_effective()).collect();
            if matching.is_empty() {
                out.push(v("C10.echo", "deadline", format!("call {} returned {} with ack deadline {} which no create of that name asked for", c.id, sv.name, sv.ack_deadline)));
                continue;
            }
            let ok = matching.iter().any(|x| {
                if let Req::CreateSub { topic, push, .. } = &x.req {
                    let topic_ok = sv.topic == *topic || (sv.topic == "_deleted_topic_" && m.topic_deletes.get(topic).map(|d| d.iter().any(|dc| m.calls[dc].inv_seq < c.ret_seq_or_max())).unwrap_or(false));
                    let push_ok = match push {
                        None => sv.push_endpoint.is_none(),
                        Some(ps) => sv.push_endpoint.as_deref() == Some(ps.endpoint.trim()) && sv.push_attrs == ps.attrs && sv.oidc == ps.oidc,
                    };
                    topic_ok && push_ok
                } else {
                    false
                }
            });
            if !ok {
                out.push(v("C10.echo", "fields", format!("call {} returned {:?} which does not match what the subscription was created with", c.id, sv)));
            }
        }
    }
}

// =================================================================================================
// C11: deletion keeps topics and subscriptions consistent
// =================================================================================================

fn rule_c11(ctx: &Ctx, out: &mut Vec<Violation>) {
    let m = ctx.m;
    if !ctx.plan.has_tag("audit_lists") {
        return;
    }
    // Audit walks are those issued by client 0 (the controller) at barriers.
    for c in m.calls.values().filter(|c| c.client == 0) {
        if let (Req::Walk { kind: ListKind::TopicSubs, parent, .. }, Some(Outcome::Ok(Resp::Walk(pages)))) = (&c.req, &c.out) {
            if pages.iter().any(|p| p.code != OK) {
                continue;
            }
            if in_flight_mutation(ctx, c.inv_seq) {
                continue;
            }
            let exp = match expected_names(ctx, &ListKind::TopicSubs, parent, c.inv_seq) {
                Some(e) => e,
                None => continue,
            };
            let got: BTreeSet<&str> = pages.iter().flat_map(|p| p.names.iter()).map(|s| s.as_str()).collect();
            for g in got.iter() {
                if !exp.certain.contains_key(*g) && !exp.uncertain.contains(*g) {
                    let gone = m.sub_deletes.get(*g).map(|d| d.iter().any(|dc| m.calls[dc].returned_ok())).unwrap_or(false);
                    // Did a create of that name overlap a delete of it (the create's attach can
                    // then land after the delete's detach)?
                    let racing = m.sub_creates.get(*g).map(|cs| cs.iter().any(|cc| m.sub_deletes.get(*g).map(|ds| ds.iter().any(|dc| m.calls[cc].inv_seq < m.calls[dc].effect_end_seq() && m.calls[dc].inv_seq < m.calls[cc].effect_end_seq())).unwrap_or(false))).unwrap_or(false);
                    out.push(v("C11.list", if gone && racing { "deleted_still_listed:create_overlaps_delete" } else if gone { "deleted_still_listed:sequential" } else { "unexpected" }, format!("ListTopicSubscriptions({}) at quiescence lists {} which is not a live subscription of this topic", parent, g)));
                }
            }
            for name in exp.certain.keys() {
                if !got.contains(name.as_str()) {
                    out.push(v("C11.list", "missing", format!("ListTopicSubscriptions({}) at quiescence does not list live subscription {}", parent, name)));
                }
            }
        }
    }
    // C11.orphan: after DeleteTopic returned, its subscriptions still exist and report the topic as deleted.
    for c in m.calls.values().filter(|c| c.client == 0) {
        if let Req::GetSub { sub } = &c.req {
            if in_flight_mutation(ctx, c.inv_seq) {
                continue;
            }
            let create_call = match lin::state_at(ctx, true, sub, c.inv_seq) {
                lin::NameState::Present(cc) => cc,
                lin::NameState::Absent => {
                    if c.code() == Some(OK) {
                        out.push(v("C11.gone", "still_gettable", format!("GetSubscription({}) at quiescence succeeds although the subscription was deleted", sub)));
                    }
                    continue;
                }
                lin::NameState::Unknown => continue,
            };
            let create = &m.calls[&create_call];
            let topic = match &create.req {
                Req::CreateSub { topic, .. } => topic.clone(),
                _ => continue,
            };
            match &c.out {
                Some(Outcome::Ok(Resp::Sub(sv))) => {
                    // Was the topic instance it was created on deleted (delete returned OK before this audit)?
                    let deleted_after_create = m.topic_deletes.get(&topic).map(|d| d.iter().any(|dc| m.calls[dc].returned_ok() && m.calls[dc].inv_seq > create.ret_seq_or_max() && m.calls[dc].ret_seq.unwrap() < c.inv_seq)).unwrap_or(false);
                    let maybe_deleted = m.topic_deletes.get(&topic).map(|d| d.iter().any(|dc| m.calls[dc].maybe_effective() && m.calls[dc].effect_end_seq() > create.inv_seq && m.calls[dc].inv_seq < c.inv_seq)).unwrap_or(false);
                    if deleted_after_create && sv.topic != "_deleted_topic_" {
                        // transient handles keep the topic alive only while requests that hold one are
                        // in flight (publisher-side requests and creates / deletes; consumers - Pull,
                        // StreamingPull, Acknowledge, ModifyAckDeadline - only hold the subscription)
                        if !topic_holder_in_flight(ctx, c.inv_seq) {
                            out.push(v("C11.orphan", "topic_not_reported_deleted", format!("GetSubscription({}) at quiescence reports topic {:?} although its topic was deleted", sub, sv.topic)));
                        }
                    }
                    if !maybe_deleted && sv.topic != topic {
                        out.push(v("C11.orphan", "wrong_topic", format!("GetSubscription({}) reports topic {:?}, created on {:?}", sub, sv.topic, topic)));
                    }
                }
                Some(Outcome::Err(code, msg)) => {
                    out.push(v("C11.orphan", "not_gettable", format!("GetSubscription({}) at quiescence fails with {} {:?} although the subscription exists", sub, code, msg)));
                }
                _ => {}
            }
        }
    }
}

/// A create/delete that was invoked before `seq` and has not certainly finished by then.
fn in_flight_mutation(ctx: &Ctx, seq: u64) -> bool {
    ctx.m.calls.values().any(|c| matches!(c.req, Req::CreateSub { .. } | Req::DeleteSub { .. } | Req::CreateTopic { .. } | Req::DeleteTopic { .. }) && c.inv_seq < seq && c.ret_seq_or_max() > seq)
}

fn topic_holder_in_flight(ctx: &Ctx, seq: u64) -> bool {
    ctx.m.calls.values().any(|c| {
        !matches!(c.req, Req::Pull { .. } | Req::DrainPull { .. } | Req::Ack { .. } | Req::ModAck { .. } | Req::GetSub { .. }) && c.inv_seq < seq && c.ret_seq_or_max() > seq
    })
}

#[allow(dead_code)]
fn any_call_in_flight(ctx: &Ctx, seq: u64) -> bool {
    ctx.m.calls.values().any(|c| c.inv_seq < seq && c.ret_seq_or_max() > seq) || ctx.m.streams.values().any(|s| s.open_seq < seq && s.end.as_ref().map(|e| e.0 > seq).unwrap_or(true))
}

// =================================================================================================
// C16: abandoned requests are all-or-nothing
// =================================================================================================

/// C16.half_done: in a plan whose fault is an abandoned request, once the server has come to rest
/// (quiescent barrier) a create or delete that runs with no other create or delete since that
/// barrier is answered as a map operation (OK, ALREADY_EXISTS, NOT_FOUND): an answer that says "the
/// resource is in the middle of something" (FAILED_PRECONDITION / INTERNAL) shows that an earlier
/// request - the abandoned one, or one it raced - was applied half.
fn rule_half_done(ctx: &Ctx, out: &mut Vec<Violation>) {
    if !ctx.plan.has_tag("cancel") {
        return;
    }
    let m = ctx.m;
    let is_mutation = |r: &Req| matches!(r, Req::CreateSub { .. } | Req::DeleteSub { .. } | Req::CreateTopic { .. } | Req::DeleteTopic { .. });
    let muts: Vec<&Call> = m.calls.values().filter(|c| is_mutation(&c.req)).collect();
    for c in muts.iter() {
        if c.client == 0 || c.abandon_at > 0 || !matches!(c.out, Some(Outcome::Err(FAILED_PRECONDITION, _)) | Some(Outcome::Err(INTERNAL, _))) {
            continue;
        }
        let Some(ret) = c.ret_seq else { continue };
        let Some(b) = m.barriers.iter().rev().find(|b| b.quiescent && b.seq < c.inv_seq) else { continue };
        if muts.iter().any(|o| o.id != c.id && o.inv_seq > b.seq && o.inv_seq < ret) {
            continue;
        }
        // a request that hangs is C07's business
        if muts.iter().any(|o| o.inv_seq < b.seq && o.ret_seq.is_none()) {
            continue;
        }
        let what = match &c.req {
            Req::CreateSub { sub, .. } => format!("CreateSubscription({sub})"),
            Req::DeleteSub { sub } => format!("DeleteSubscription({sub})"),
            Req::CreateTopic { topic } => format!("CreateTopic({topic})"),
            Req::DeleteTopic { topic } => format!("DeleteTopic({topic})"),
            _ => continue,
        };
        let kind = what.split('(').next().unwrap_or("").to_string();
        out.push(v("C16.half_done", format!("conflict_at_rest:{kind}"), format!("{} (call {}) was answered {:?} although the server had come to rest (barrier {}) and no other create or delete ran since", what, c.id, c.out, b.seq)));
    }
}

fn rule_c16(ctx: &Ctx, out: &mut Vec<Violation>) {
    rule_half_done(ctx, out);
    let m = ctx.m;
    if !ctx.plan.has_tag("audit_lists") {
        return;
    }
    let cancel_plan = ctx.plan.has_tag("cancel");
    let rule_name = if cancel_plan { "C16.attached" } else { "C11.consistent" };
    let racing = |sub: &str| -> bool {
        m.sub_creates.get(sub).map(|cs| cs.iter().any(|cc| m.sub_deletes.get(sub).map(|ds| ds.iter().any(|dc| m.calls[cc].inv_seq < m.calls[dc].effect_end_seq() && m.calls[dc].inv_seq < m.calls[cc].effect_end_seq())).unwrap_or(false))).unwrap_or(false)
    };
    // At every audit, a subscription exists <=> it is in its (live) topic's list. This needs no
    // knowledge of what abandoned or racing requests did: whatever they did, the two views of
    // the server must agree once it is quiescent.
    // Group audit calls by the barrier they follow.
    let audits: Vec<&Call> = m.calls.values().filter(|c| c.client == 0).collect();
    let mut by_barrier: BTreeMap<u64, Vec<&Call>> = BTreeMap::new();
    for c in audits {
        let b = m.barriers.iter().rev().find(|b| b.seq < c.inv_seq).map(|b| b.seq).unwrap_or(0);
        by_barrier.entry(b).or_default().push(c);
    }
    for (_b, calls) in by_barrier.iter() {
        let mut listed: BTreeMap<String, BTreeSet<String>> = BTreeMap::new(); // topic -> subs
        let mut topic_ok: BTreeSet<String> = BTreeSet::new();
        for c in calls.iter() {
            match (&c.req, &c.out) {
                (Req::Walk { kind: ListKind::TopicSubs, parent, .. }, Some(Outcome::Ok(Resp::Walk(pages)))) if pages.iter().all(|p| p.code == OK) => {
                    listed.insert(parent.clone(), pages.iter().flat_map(|p| p.names.iter().cloned()).collect());
                    topic_ok.insert(parent.clone());
                }
                _ => {}
            }
        }
        for c in calls.iter() {
            if let (Req::GetSub { sub }, Some(o)) = (&c.req, &c.out) {
                match o {
                    Outcome::Ok(Resp::Sub(sv)) => {
                        if sv.topic != "_deleted_topic_" && topic_ok.contains(&sv.topic) {
                            // the topic name must still denote the instance the subscription was created on
                            let recreated = m.topic_creates.get(&sv.topic).map(|cs| cs.iter().filter(|x| m.calls[x].maybe_effective()).count() > 1).unwrap_or(false);
                            if !recreated && !listed[&sv.topic].contains(sub) {
                                let abandoned_create = m.sub_creates.get(sub).map(|cs| cs.iter().any(|x| matches!(m.calls[x].out, Some(Outcome::Abandoned(_))))).unwrap_or(false);
                                if in_flight_mutation(ctx, c.inv_seq) {
                                    continue;
                                }
                                out.push(v(
                                    rule_name,
                                    if abandoned_create { "abandoned_create_unattached".to_string() } else if racing(sub) { "unattached:create_overlaps_delete".to_string() } else { "unattached".to_string() },
                                    format!("subscription {} exists (GetSubscription OK, topic {}) but is not in ListTopicSubscriptions of that topic", sub, sv.topic),
                                ));
                            }
                        }
                    }
                    Outcome::Err(NOT_FOUND, _) => {
                        for (t, subs) in listed.iter() {
                            if subs.contains(sub) && !in_flight_mutation(ctx, c.inv_seq) {
                                out.push(v(rule_name, if racing(sub) { "listed_but_missing:create_overlaps_delete" } else { "listed_but_missing" }, format!("subscription {} is listed by topic {} but GetSubscription says NOT_FOUND", sub, t)));
                            }
                        }
                    }
                    _ => {}
                }
            }
        }
    }
    // C16.partial_ack: an abandoned Acknowledge is applied to all the deliveries it names or to none
    // (judged on named deliveries that were certainly still leased when it was invoked and that no
    // other request names: after the drain each of them was delivered again, or none was).
    if m.drain_end.is_some() && cancel_plan {
        for c in m.calls.values() {
            if let (Req::Ack { sub, ack_ids }, Some(Outcome::Abandoned(_))) = (&c.req, &c.out) {
                let inst = match m.unique_sub(sub) {
                    Some(i) => i,
                    None => continue,
                };
                if m.sub_delete_ever(sub) || ack_ids.len() < 2 {
                    continue;
                }
                let named: HashSet<String> = ack_ids.iter().map(|a| crate::oracle::canon_ack(a)).collect();
                let others_name_them = m.calls.values().any(|o| o.id != c.id && match &o.req {
                    Req::Ack { sub: s, ack_ids } | Req::ModAck { sub: s, ack_ids, .. } => s == sub && o.client != 9000 && ack_ids.iter().any(|a| named.contains(&crate::oracle::canon_ack(a))),
                    _ => false,
                });
                if others_name_them {
                    continue;
                }
                let mut again = 0usize;
                let mut total = 0usize;
                for d in m.deliveries.iter().filter(|d| d.sub == *sub && named.contains(&crate::oracle::canon_ack(&d.recv.ack_id))) {
                    if d.recv_t + inst.deadline_us() <= c.inv_t + crate::oracle::SLACK_US {
                        continue; // its lease may have been over already
                    }
                    total += 1;
                    let later = m.deliveries_by_key.get(&(sub.clone(), d.recv.msg_id.clone())).map(|l| l.iter().any(|&i| m.deliveries[i].recv_seq > d.recv_seq)).unwrap_or(false);
                    if later {
                        again += 1;
                    }
                }
                if total >= 2 && again != 0 && again != total {
                    out.push(v("C16.partial_ack", "partial", format!("abandoned Acknowledge call {} on {} naming {} leased deliveries: {} of them were delivered again, {} were not", c.id, sub, total, again, total - again)));
                }
            }
        }
    }
    // C16.partial_publish: an abandoned Publish is delivered entirely or not at all, on every
    // subscription that was attached throughout.
    if m.drain_end.is_some() && cancel_plan {
        for c in m.calls.values() {
            if let (Req::Publish { topic, tokens, .. }, Some(Outcome::Abandoned(_))) = (&c.req, &c.out) {
                let mut per_sub: Vec<(String, usize)> = Vec::new();
                for name in m.sub_creates.keys() {
                    let inst = match m.unique_sub(name) {
                        Some(i) => i,
                        None => continue,
                    };
                    if inst.topic != *topic || m.sub_delete_ever(name) || m.topic_deletes.contains_key(topic) || inst.deadline_us() > 600_000_000 {
                        continue;
                    }
                    if inst.established_seq > c.inv_seq {
                        continue;
                    }
                    let delivered: HashSet<&str> = m.deliveries.iter().filter(|d| d.sub == *name).map(|d| d.recv.token.as_str()).collect();
                    let n = tokens.iter().filter(|t| delivered.contains(t.as_str())).count();
                    per_sub.push((name.clone(), n));
                }
                for (name, n) in per_sub.iter() {
                    if *n != 0 && *n != tokens.len() {
                        out.push(v("C16.partial_publish", "partial_batch", format!("abandoned Publish call {} ({} messages): {} received {} of them", c.id, tokens.len(), name, n)));
                    }
                }
                let counts: BTreeSet<usize> = per_sub.iter().map(|x| x.1).collect();
                if counts.len() > 1 && counts.iter().all(|n| *n == 0 || *n == tokens.len()) {
                    out.push(v("C16.partial_publish", "partial_fanout", format!("abandoned Publish call {}: delivered to some attached subscriptions and not to others: {:?}", c.id, per_sub)));
                }
            }
        }
    }
}

// =================================================================================================
// C17: malformed requests
// =================================================================================================

pub fn definitely_malformed_name(s: &str) -> bool {
    match s.strip_prefix("projects/") {
        None => true,
        Some(rest) => !rest.contains('/'),
    }
}

fn definitely_malformed_ack_id(s: &str) -> bool {
    // "+5" and "0007" are odd but numeric; only strings that are not a number at all, or that
    // cannot be an ack ID of any width, are unambiguously malformed.
    let digits = s.strip_prefix('+').unwrap_or(s);
    digits.is_empty() || !digits.bytes().all(|b| b.is_ascii_digit()) || digits.trim_start_matches('0').len() > 25
}

fn rule_c17(ctx: &Ctx, out: &mut Vec<Violation>) {
    let m = ctx.m;
    if !ctx.plan.has_tag("hostile") {
        return;
    }
    for c in m.calls.values() {
        let code = match c.code() {
            Some(c) => c,
            None => continue,
        };
        let mut malformed: Option<String> = None;
        match &c.req {
            Req::CreateTopic { topic } | Req::DeleteTopic { topic } | Req::GetTopic { topic } => {
                if definitely_malformed_name(topic) {
                    malformed = Some(format!("topic name {:?}", topic));
                }
            }
            Req::Publish { topic, .. } => {
                if definitely_malformed_name(topic) {
                    malformed = Some(format!("topic name {:?}", topic));
                }
            }
            Req::CreateSub { sub, topic, push, .. } => {
                if definitely_malformed_name(sub) {
                    malformed = Some(format!("subscription name {:?}", sub));
                } else if definitely_malformed_name(topic) {
                    malformed = Some(format!("topic name {:?}", topic));
                } else if let Some(p) = push {
                    if !p.endpoint.trim().starts_with("http") {
                        malformed = Some(format!("push endpoint {:?}", p.endpoint));
                    }
                }
            }
            Req::DeleteSub { sub } | Req::GetSub { sub } | Req::Pull { sub, .. } => {
                if definitely_malformed_name(sub) {
                    malformed = Some(format!("subscription name {:?}", sub));
                }
            }
            Req::Ack { sub, ack_ids } => {
                if definitely_malformed_name(sub) {
                    malformed = Some(format!("subscription name {:?}", sub));
                } else if let Some(a) = ack_ids.iter().find(|a| definitely_malformed_ack_id(a)) {
                    malformed = Some(format!("ack id {:?}", a));
                }
            }
            Req::ModAck { sub, ack_ids, secs } => {
                if definitely_malformed_name(sub) {
                    malformed = Some(format!("subscription name {:?}", sub));
                } else if let Some(a) = ack_ids.iter().find(|a| definitely_malformed_ack_id(a)) {
                    malformed = Some(format!("ack id {:?}", a));
                } else if *secs < 0 && !ack_ids.is_empty() {
                    malformed = Some(format!("ack_deadline_seconds {}", secs));
                }
            }
            Req::ListPage { parent, page_size, token, kind } => {
                let decodable = token.is_empty() || token_decodable(token).is_some();
                if *page_size < 0 {
                    malformed = Some(format!("page_size {}", page_size));
                } else if !decodable {
                    malformed = Some(format!("page token {:?}", token));
                } else if matches!(kind, ListKind::TopicSubs) && definitely_malformed_name(parent) {
                    malformed = Some(format!("topic name {:?}", parent));
                } else if !matches!(kind, ListKind::TopicSubs) && !parent.starts_with("projects/") {
                    malformed = Some(format!("project {:?}", parent));
                }
            }
            _ => {}
        }
        if let Some(what) = malformed {
            if code != INVALID_ARGUMENT {
                let kind = format!("{:?}", std::mem::discriminant(&c.req));
                let _ = kind;
                out.push(v("C17.status", format!("accepted:{}", what.split(' ').next().unwrap_or("")), format!("call {} {:?} with malformed {} returned code {} instead of INVALID_ARGUMENT", c.id, short_req(&c.req), what, code)));
            }
        }
    }
    // Streams: a malformed control message / opening request must end the stream with a status.
    for s in m.streams.values() {
        let hostile_send = s.sends.iter().find(|x| x.5);
        let bad_open = definitely_malformed_name(&s.sub) || s.max_msgs < 0 || s.max_msgs > 65535;
        // (only for a stream that was opened successfully: one that was refused - unknown
        // subscription, bad opening request - has its own status)
        let opened_ok = matches!(s.started, Some((_, _, OK)));
        if let Some((seq, _, _, _, _, _)) = hostile_send.filter(|_| opened_ok) {
            if let Some(b) = m.barrier_after(*seq) {
                match &s.end {
                    Some((es, _, StreamEnd::Status(code, _))) if *es < b.seq => {
                        if *code != INVALID_ARGUMENT {
                            out.push(v("C17.status", "stream_control_status", format!("stream {}: malformed control message answered with status {}", s.slot, code)));
                        }
                    }
                    Some((_, _, StreamEnd::Dropped)) => {}
                    Some((es, _, StreamEnd::Status(_, _))) if *es >= b.seq => {}
                    Some((_, _, end)) => {
                        out.push(v("C17.status", "stream_abrupt_end", format!("stream {} ended with {:?} after a malformed control message (no status)", s.slot, end)));
                    }
                    None => {
                        out.push(v("C17.status", "stream_control_ignored", format!("stream {}: malformed control message did not end the stream with a status by the next quiescent barrier", s.slot)));
                    }
                }
            }
        }
        if bad_open {
            match &s.started {
                Some((_, _, code)) if *code == INVALID_ARGUMENT => {}
                // a well-formed name that names nothing (any more) may be answered NOT_FOUND before the
                // numbers are looked at
                Some((_, _, code)) if *code == NOT_FOUND && !definitely_malformed_name(&s.sub) && m.unique_sub(&s.sub).map(|i| m.sub_delete_ever(&i.name)).unwrap_or(true) => {}
                Some((_, _, code)) => {
                    if !matches!(s.end, Some((_, _, StreamEnd::Dropped))) {
                        let key = if definitely_malformed_name(&s.sub) { "stream_open_accepted:name" } else { "stream_open_accepted:limits" };
                        out.push(v("C17.status", key, format!("StreamingPull on {:?} with max_outstanding_messages {} answered with code {}", s.sub, s.max_msgs, code)));
                    }
                }
                None => {}
            }
        }
    }
}

fn short_req(r: &Req) -> String {
    let s = format!("{:?}", r);
    s.chars().take(160).collect()
}
