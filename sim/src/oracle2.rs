//! More rules: C10 (atomic namespaces), C11 (deletion consistency), C13 (listing),
//! C14 (push), C16 (abandonment audit), C17 (malformed requests).
use crate::oracle::{Ctx, Violation};

pub fn evaluate_more(_ctx: &Ctx, _out: &mut Vec<Violation>) {}
