//! One simulated run = one process. Builds the Plan (from a seed or a file), runs it under the
//! deterministic runtime, evaluates the oracles and prints one JSON line.
use crate::checks;
use crate::hooks;
use crate::log::{Ev, Event};
use crate::model::Model;
use crate::oracle::{self, Ctx, Facts, Violation};
use crate::plan::Plan;
use crate::rng::{fnv, mix2};
use crate::world::Sim;
use serde::{Deserialize, Serialize};
use std::cell::Cell;
use std::collections::BTreeMap;
use std::rc::Rc;

#[derive(Serialize, Deserialize, Clone, Debug, Default)]
pub struct RunResult {
    pub check: String,
    pub seed: u64,
    pub family: String,
    pub plan_hash: u64,
    /// Violations of rules this check claims.
    pub claimed: Vec<Violation>,
    /// Violations of other rules seen in this run (reported by their own checks).
    pub other: Vec<String>,
    pub nontrivial: bool,
    pub facts: Facts,
    pub probes: BTreeMap<String, u64>,
    pub faults: BTreeMap<String, u64>,
    pub sim_time_us: u64,
    pub events: u64,
    pub ops: u64,
    pub points: u64,
    pub yields: u64,
    pub stalls: u64,
    pub sched_fp: u64,
    pub state_fp: u64,
    pub log_hash: u64,
    pub getrandom_calls: u64,
    /// "<request kind>@<k>": calls that were actually dropped at their k-th real suspension
    #[serde(default)]
    pub abandon_points: Vec<String>,
    #[serde(default)]
    pub lock_acquisitions: u64,
    #[serde(default, skip_serializing_if = "Option::is_none")]
    pub plan: Option<Plan>,
    #[serde(default, skip_serializing_if = "Option::is_none")]
    pub log: Option<Vec<Event>>,
}

pub fn plan_hash(plan: &Plan) -> u64 {
    fnv(serde_json::to_string(plan).unwrap().as_bytes())
}

/// Hash of the event log without wall-clock data (publish_time is the OS clock: data only).
pub fn log_hash(events: &[Event]) -> u64 {
    let mut h = 0u64;
    for e in events {
        let mut e2 = e.clone();
        scrub(&mut e2.ev);
        h = mix2(h, fnv(serde_json::to_string(&e2).unwrap().as_bytes()));
    }
    h
}

fn scrub(ev: &mut Ev) {
    use crate::log::{Outcome, Resp};
    let fix = |rs: &mut Vec<crate::log::Recv>| {
        for r in rs.iter_mut() {
            if r.publish_time.is_some() {
                r.publish_time = Some((0, 0));
            }
        }
    };
    match ev {
        Ev::Return { out: Outcome::Ok(Resp::Pulled(rs)), .. } => fix(rs),
        Ev::StreamItem { recvs, .. } => fix(recvs),
        _ => {}
    }
}

static PANIC_COUNT: std::sync::atomic::AtomicU64 = std::sync::atomic::AtomicU64::new(0);
static FIRST_PANIC: std::sync::Mutex<Option<(String, String)>> = std::sync::Mutex::new(None);

pub fn execute(check: &str, plan: Plan, want_log: bool) -> RunResult {
    hooks::seed_getrandom(plan.seed);
    let panics = Rc::new(Cell::new(0u32));
    std::panic::set_hook(Box::new(|info| {
        // Every panic in the process counts: a handler's (also caught by the guard) and one inside
        // a spawned server task (an actor that dies takes its topic / subscription with it).
        PANIC_COUNT.fetch_add(1, std::sync::atomic::Ordering::SeqCst);
        let loc = info.location().map(|l| format!("{}:{}", l.file().rsplit("/src/").next().unwrap_or(l.file()), l.line())).unwrap_or_else(|| "?".into());
        let msg = if let Some(s) = info.payload().downcast_ref::<&str>() {
            s.to_string()
        } else if let Some(s) = info.payload().downcast_ref::<String>() {
            s.clone()
        } else {
            "panic".to_string()
        };
        let mut first = FIRST_PANIC.lock().unwrap_or_else(|e| e.into_inner());
        if first.is_none() {
            *first = Some((loc, msg.chars().take(160).collect()));
        }
        if std::env::var("SIM_SHOW_PANICS").is_ok() {
            eprintln!("panic: {info}");
        }
    }));
    let mut seed_bytes = [0u8; 32];
    for (i, chunk) in seed_bytes.chunks_mut(8).enumerate() {
        chunk.copy_from_slice(&mix2(plan.seed, i as u64).to_le_bytes());
    }
    let rt = tokio::runtime::Builder::new_current_thread()
        .enable_time()
        .start_paused(true)
        .rng_seed(tokio::runtime::RngSeed::from_bytes(&seed_bytes))
        .build()
        .expect("runtime");
    let local = tokio::task::LocalSet::new();
    let (push_tx, push_rx) = tokio::sync::mpsc::unbounded_channel();
    hooks::install(plan.seed, plan.knobs.clone(), push_tx);
    let plan_for_result = plan.clone();
    let (events, sim_time_us) = local.block_on(&rt, async move {
        let sim = Sim::new(plan, panics);
        sim.start_endpoint(push_rx);
        sim.run().await;
        let t = sim.now_us();
        (sim.take_events(), t)
    });
    // Do not run destructors of the runtime: parked tasks (deadlocked actors, never-answered
    // posts) are simply abandoned with the process.
    std::mem::forget(local);
    std::mem::forget(rt);

    let model = Model::build(&events);
    let ctx = Ctx::new(&plan_for_result, &model);
    let all = oracle::evaluate(&ctx);
    let mut all = all;
    // A panic anywhere in the process (the guard reports a handler's own panic as CRASH.panic too;
    // this also sees the ones inside spawned server tasks, which nobody awaits).
    if PANIC_COUNT.load(std::sync::atomic::Ordering::SeqCst) > 0 {
        let first = FIRST_PANIC.lock().unwrap_or_else(|e| e.into_inner()).clone();
        if let Some((loc, msg)) = first {
            if !all.iter().any(|v| v.rule == "CRASH.panic") {
                all.push(Violation { rule: "CRASH.panic".into(), key: format!("panic at {loc}"), detail: format!("{} panic(s) in the server process; first at {loc}: {msg}", PANIC_COUNT.load(std::sync::atomic::Ordering::SeqCst)) });
            }
        }
    }
    // Lock-order inversions: two code paths that nest the same two locks in opposite orders can
    // deadlock two threads of the multi-threaded runtime (a request then never terminates), even
    // though a single-threaded run never blocks.
    {
        let st = hooks::HOOKS.st.lock().unwrap();
        let edges: Vec<_> = st.lock_edges.iter().cloned().collect();
        for (a, ax, b, bx) in edges.iter() {
            if a == b {
                all.push(Violation { rule: "C07.lock_order".into(), key: format!("nested:{a}"), detail: format!("a lock of class {a} is taken while another lock of the same class is held") });
                continue;
            }
            for (c, cx, d, dx) in edges.iter() {
                // (hold a, take b) and (hold c == b, take d == a)
                if c == b && d == a && a < b && (*bx || *cx) && (*ax || *dx) {
                    all.push(Violation {
                        rule: "C07.lock_order".into(),
                        key: format!("inversion:{a}<->{b}"),
                        detail: format!("lock-order inversion: one path takes {b} while holding {a}, another takes {a} while holding {b}; on the multi-threaded runtime two requests on these paths block each other forever"),
                    });
                }
            }
        }
    }
    let facts = oracle::facts(&ctx);
    let def = checks::find(check);
    let (claimed, other): (Vec<Violation>, Vec<Violation>) = all.into_iter().partition(|v| def.map(|d| checks::rule_claimed(d, &v.rule)).unwrap_or(true));
    let (probes, points, yields, stalls, sched_fp) = {
        let st = hooks::HOOKS.st.lock().unwrap();
        (st.probes.iter().map(|(k, v)| (k.to_string(), *v)).collect::<BTreeMap<String, u64>>(), st.points, st.yields, st.stalls, st.sched_fp)
    };
    let mut faults: BTreeMap<String, u64> = BTreeMap::new();
    let mut add = |k: &str, n: u64| {
        if n > 0 {
            *faults.entry(k.to_string()).or_insert(0) += n;
        }
    };
    add("abandoned_call", facts.abandoned);
    add("stream_reset", facts.stream_resets);
    add("clock_jump", facts.clock_jumps);
    add("schedule_yield", yields);
    add("stall", stalls);
    add("slow_handler_stall_seconds", hooks::long_stalls());
    add("push_endpoint_failure", facts.post_failures);
    add("push_body_broken", probes.get("push_body_broken_sent").cloned().unwrap_or(0));
    add("nack", facts.nacks);
    add("delete_subscription", facts.deletes_sub);
    add("delete_topic", facts.deletes_topic);
    add("mailbox_full", probes.get("mailbox_full_at_send").cloned().unwrap_or(0) + probes.get("post_blocked_on_full_mailbox").cloned().unwrap_or(0) + probes.get("topic_mailbox_full_at_send").cloned().unwrap_or(0));
    add("lease_expiry", probes.get("expiry_batch_1").cloned().unwrap_or(0) + probes.get("expiry_batch_gt1").cloned().unwrap_or(0));
    add("rejected_request", facts.invalid_argument);
    let cancels = events.iter().filter(|e| matches!(e.ev, Ev::CancelBg { .. })).count() as u64;
    add("cancelled_blocking_pull", cancels);
    // slow consumer: a client that stopped reading its stream; and how often the server's handler
    // actually produced a response while the client was not reading (the pipe took it)
    let stall_starts = events.iter().filter(|e| matches!(e.ev, Ev::StreamStall { on: true, .. })).count() as u64;
    add("stalled_stream_client", stall_starts);
    let mut stalled_items = 0u64;
    for st in model.streams.values() {
        for (on, off) in st.stalls.iter() {
            stalled_items += st.items.iter().filter(|(seq, _, _)| *seq > *on && off.map(|o| *seq < o).unwrap_or(true)).count() as u64;
        }
    }
    add("response_produced_into_stalled_pipe", stalled_items);
    // requests issued at the instant a lease runs out (within 1 ms of the client-side lease end)
    let edge_steps = plan_for_result.phases.iter().flat_map(|p| p.scripts.iter()).flat_map(|s| s.iter()).filter(|st| matches!(st.op, crate::plan::Op::SleepUntilLeaseEnd { .. })).count() as u64;
    add("request_aligned_to_lease_end", edge_steps);
    // client retries of abandoned requests (request duplication)
    let mut retries = 0u64;
    for p in plan_for_result.phases.iter() {
        for s in p.scripts.iter() {
            for w in s.windows(2) {
                if (w[0].abandon_at > 0 || w[0].abandon_after_us > 0) && w[1].abandon_at == 0 && w[1].abandon_after_us == 0 && w[0].op == w[1].op {
                    retries += 1;
                }
            }
        }
    }
    add("client_retry_of_abandoned_request", retries);
    // State fingerprint: the sequence of barrier snapshots.
    let mut state_fp = 0u64;
    for s in model.stats.iter() {
        state_fp = mix2(state_fp, fnv(format!("{}:{}:{}:{}", s.sub, s.found, s.backlog, s.outstanding).as_bytes()));
    }
    let nontrivial = checks::nontrivial(check, &facts, &probes);
    let mut abandon_points: Vec<String> = Vec::new();
    for c in model.calls.values() {
        if let Some(crate::log::Outcome::Abandoned(k)) = &c.out {
            let kind = format!("{:?}", c.req);
            let kind = kind.split(|ch: char| ch == ' ' || ch == '{').next().unwrap_or("").to_string();
            let timed = c.abandon_at == 0;
            abandon_points.push(format!("{}@{}{}", kind, k, if timed { "(timed)" } else { "" }));
        }
    }
    abandon_points.sort();
    abandon_points.dedup();
    let lock_acquisitions = hooks::HOOKS.st.lock().unwrap().lock_acquisitions;
    RunResult {
        check: check.to_string(),
        seed: plan_for_result.seed,
        family: plan_for_result.family.clone(),
        plan_hash: plan_hash(&plan_for_result),
        claimed,
        other: other.iter().map(|v| v.rule.clone()).collect(),
        nontrivial,
        facts,
        probes,
        faults,
        sim_time_us,
        events: events.len() as u64,
        ops: plan_for_result.op_count() as u64,
        points,
        yields,
        stalls,
        sched_fp,
        state_fp,
        log_hash: log_hash(&events),
        getrandom_calls: hooks::GETRANDOM_CALLS.load(std::sync::atomic::Ordering::Relaxed),
        abandon_points,
        lock_acquisitions,
        plan: None,
        log: if want_log { Some(events) } else { None },
    }
}

fn arg<'a>(args: &'a [String], name: &str) -> Option<&'a str> {
    args.iter().position(|a| a == name).and_then(|i| args.get(i + 1)).map(|s| s.as_str())
}

pub fn child_main(args: &[String]) -> i32 {
    let check = arg(args, "--check").unwrap_or("C01").to_string();
    let thorough = arg(args, "--tier") == Some("thorough");
    let emit_plan = args.iter().any(|a| a == "--emit-plan");
    let dump_log = args.iter().any(|a| a == "--dump-log");
    let plan: Plan = if let Some(file) = arg(args, "--plan") {
        let text = match std::fs::read_to_string(file) {
            Ok(t) => t,
            Err(e) => {
                eprintln!("cannot read plan {file}: {e}");
                return 2;
            }
        };
        // Either a bare Plan or a replay file with a "plan" member.
        let v: serde_json::Value = match serde_json::from_str(&text) {
            Ok(v) => v,
            Err(e) => {
                eprintln!("bad plan json: {e}");
                return 2;
            }
        };
        let pv = if v.get("plan").is_some() { v["plan"].clone() } else { v };
        match serde_json::from_value(pv) {
            Ok(p) => p,
            Err(e) => {
                eprintln!("bad plan: {e}");
                return 2;
            }
        }
    } else {
        let seed: u64 = arg(args, "--seed").and_then(|s| s.parse().ok()).unwrap_or(1);
        checks::generate(&check, seed, thorough)
    };
    if args.iter().any(|a| a == "--plan-only") {
        println!("{}", serde_json::to_string(&plan).unwrap());
        return 0;
    }
    let keep = plan.clone();
    let mut result = execute(&check, plan, dump_log);
    if emit_plan || !result.claimed.is_empty() {
        result.plan = Some(keep);
    }
    println!("{}", serde_json::to_string(&result).unwrap());
    0
}
