//! Oracles: rules evaluated over the recorded history. Every rule follows the must/may
//! discipline of DESIGN.md §3: it fires only when the observation is impossible for every
//! value inside the uncertainty intervals.
use crate::log::*;
use crate::model::*;
use crate::plan::Plan;
use serde::{Deserialize, Serialize};
use std::collections::{BTreeMap, BTreeSet, HashMap, HashSet};

pub const SLACK_US: u64 = 1_000_000;
/// Pairwise rules compare a delivery with this many later deliveries of the same message (any
/// subset of pairs is sound; a runaway redelivery loop must not make the oracle quadratic).
pub const PAIR_WINDOW: usize = 8;
pub const PULL_LIMIT_US: u64 = 300 * 1_000_000;

#[derive(Serialize, Deserialize, Clone, Debug, PartialEq)]
pub struct Violation {
    pub rule: String,
    pub detail: String,
    /// Structural key used to match known findings (operation kinds involved etc.).
    pub key: String,
}

/// If a rejected request named the delivery, the same observation is also a violation of
/// "a rejected request changes nothing".
fn also_rejected(out: &mut Vec<Violation>, lease: &Lease, detail: &str) {
    match lease.rejected {
        Some("ModifyAckDeadline") => out.push(v("C05.reject", "rejected_request_applied", format!("a rejected ModifyAckDeadline named this delivery, yet: {detail}"))),
        Some(_) => out.push(v("C17.nochange", "rejected_request_applied", format!("a rejected Acknowledge named this delivery, yet: {detail}"))),
        None => {}
    }
}

fn v(rule: &str, key: impl Into<String>, detail: impl Into<String>) -> Violation {
    Violation { rule: rule.to_string(), key: key.into(), detail: detail.into() }
}

#[derive(Clone, Debug)]
pub struct Lease {
    /// The lease certainly lasts until here (absent an ack).
    pub lo: u64,
    /// The lease is certainly over from here on.
    pub hi: u64,
    /// Some acknowledgement naming this ack id was invoked (any outcome).
    pub maybe_acked: bool,
    /// An acknowledgement certainly took effect while the delivery was outstanding: (seq, t).
    pub acked_at: Option<(u64, u64)>,
    pub modified: bool,
    pub nacked: bool,
    /// A request that was *rejected* (INVALID_ARGUMENT / NOT_FOUND) named this ack id. Rejected
    /// requests have no effect in the model; if the implementation applied one anyway, the rule
    /// that notices is reported under C05.reject / C17.nochange as well.
    pub rejected: Option<&'static str>,
}

#[derive(Clone, Debug)]
struct Modification {
    inv_seq: u64,
    inv_t: u64,
    /// Sequence number after which the request can have no further effect (it returned a
    /// definite answer, or its stream ended); None = may still be in flight.
    end_seq: Option<u64>,
    /// Time by which it was certainly processed (reply / quiescent barrier), if known.
    done_t: Option<u64>,
    done_seq: Option<u64>,
    secs: i32,
    definite: bool,
    /// Control messages of one StreamingPull stream are processed in the order they were sent.
    stream: Option<u32>,
}

pub struct Ctx<'a> {
    pub plan: &'a Plan,
    pub m: &'a Model<'a>,
    mods: HashMap<(String, String), Vec<Modification>>,
    /// (sub, ack id) -> acknowledgements: (end_seq, inv_seq, done (seq,t) if certainly processed)
    acks: HashMap<(String, String), Vec<(Option<u64>, u64, Option<(u64, u64)>, u64)>>,
    /// (sub, ack id) -> kind of a rejected request that named it, with its invoke seq
    rejected: HashMap<(String, String), Vec<(&'static str, u64)>>,
}

/// Ack IDs are numbers; spellings that denote the same number ("+5", "005") name the same
/// delivery as far as the server is concerned, so the model indexes them by value.
pub fn canon_ack(s: &str) -> String {
    match s.parse::<u64>() {
        Ok(v) => v.to_string(),
        Err(_) => s.to_string(),
    }
}

impl<'a> Ctx<'a> {
    pub fn new(plan: &'a Plan, m: &'a Model<'a>) -> Self {
        let mut mods: HashMap<(String, String), Vec<Modification>> = HashMap::new();
        let mut acks: HashMap<(String, String), Vec<(Option<u64>, u64, Option<(u64, u64)>, u64)>> = HashMap::new();
        let mut rejected: HashMap<(String, String), Vec<(&'static str, u64)>> = HashMap::new();
        for c in m.calls.values() {
            // A request answered INVALID_ARGUMENT or NOT_FOUND was rejected: no effect in the model.
            if matches!(c.out, Some(Outcome::Err(INVALID_ARGUMENT, _)) | Some(Outcome::Err(NOT_FOUND, _))) {
                match &c.req {
                    Req::ModAck { sub, ack_ids, .. } => {
                        for a in ack_ids {
                            rejected.entry((sub.clone(), canon_ack(a))).or_default().push(("ModifyAckDeadline", c.inv_seq));
                        }
                    }
                    Req::Ack { sub, ack_ids } => {
                        for a in ack_ids {
                            rejected.entry((sub.clone(), canon_ack(a))).or_default().push(("Acknowledge", c.inv_seq));
                        }
                    }
                    _ => {}
                }
                continue;
            }
            match &c.req {
                Req::ModAck { sub, ack_ids, secs } => {
                    let definite = c.returned_ok();
                    let end_seq = if c.code().is_some() { c.ret_seq } else { None };
                    for a in ack_ids {
                        mods.entry((sub.clone(), canon_ack(a))).or_default().push(Modification {
                            inv_seq: c.inv_seq,
                            inv_t: c.inv_t,
                            end_seq,
                            done_t: c.ret_t,
                            done_seq: c.ret_seq,
                            secs: *secs,
                            definite,
                            stream: None,
                        });
                    }
                }
                Req::Ack { sub, ack_ids } => {
                    let done = if c.returned_ok() { Some((c.ret_seq.unwrap(), c.ret_t.unwrap())) } else { None };
                    let end_seq = if c.code().is_some() { c.ret_seq } else { None };
                    for a in ack_ids {
                        acks.entry((sub.clone(), canon_ack(a))).or_default().push((end_seq, c.inv_seq, done, c.inv_t));
                    }
                }
                _ => {}
            }
        }
        for s in m.streams.values() {
            for (seq, t, ack_ids, modacks, secs, hostile) in s.sends.iter() {
                // A control message is certainly processed by the first quiescent barrier after
                // it, provided the stream was still open then and the message was well-formed.
                let barrier = m.barrier_after(*seq);
                let open_at_barrier = |b: &BarrierInfo| s.end.as_ref().map(|(es, _, _)| *es > b.seq).unwrap_or(true);
                let done = match barrier {
                    Some(b) if open_at_barrier(b) && !*hostile => Some((b.seq, b.t)),
                    _ => None,
                };
                let end_seq = match (&s.end, done) {
                    (Some((es, _, _)), Some((bs, _))) => Some((*es).min(bs)),
                    (Some((es, _, _)), None) => Some(*es),
                    (None, Some((bs, _))) => Some(bs),
                    (None, None) => None,
                };
                // A malformed control message that ended the stream with INVALID_ARGUMENT was rejected:
                // neither its acknowledgements nor its modifications may have been applied.
                let frame_rejected = *hostile && matches!(&s.end, Some((_, _, StreamEnd::Status(INVALID_ARGUMENT, _))));
                if frame_rejected {
                    for a in ack_ids.iter() {
                        rejected.entry((s.sub.clone(), canon_ack(a))).or_default().push(("Acknowledge", *seq));
                    }
                    for a in modacks.iter() {
                        rejected.entry((s.sub.clone(), canon_ack(a))).or_default().push(("ModifyAckDeadline", *seq));
                    }
                    continue;
                }
                for a in ack_ids {
                    acks.entry((s.sub.clone(), canon_ack(a))).or_default().push((end_seq, *seq, done, *t));
                }
                for (i, a) in modacks.iter().enumerate() {
                    let n = secs.get(i).cloned().unwrap_or(0);
                    mods.entry((s.sub.clone(), canon_ack(a))).or_default().push(Modification {
                        inv_seq: *seq,
                        inv_t: *t,
                        end_seq,
                        done_t: done.map(|d| d.1),
                        done_seq: done.map(|d| d.0),
                        secs: n,
                        definite: done.is_some(),
                        stream: Some(s.slot),
                    });
                }
            }
        }
        for list in mods.values_mut() {
            list.sort_by_key(|x| x.inv_seq);
        }
        Ctx { plan, m, mods, acks, rejected }
    }

    /// The lease of delivery `d` as it can be known to an observation made during the window
    /// [from_seq, to_seq] (a probe's invoke / return): requests invoked after the window are
    /// ignored, requests that had certainly been processed before it count as definite, the
    /// rest (in flight, abandoned, unanswered) only widen the uncertainty.
    pub fn lease_at(&self, d: &Delivery, deadline_us: u64, from_seq: u64, to_seq: u64) -> Lease {
        let mut lo = d.lo_t + deadline_us;
        let mut hi = d.recv_t + deadline_us + SLACK_US;
        let mut modified = false;
        let mut nacked = false;
        let mut maybe_acked = false;
        let mut acked_at = None;
        let mut rejected = None;
        if let Some(list) = self.rejected.get(&(d.sub.clone(), canon_ack(&d.recv.ack_id))) {
            if let Some((kind, _)) = list.iter().find(|(_, inv)| *inv <= to_seq && *inv >= d.lo_seq) {
                rejected = Some(*kind);
            }
        }
        match &d.via {
            Via::Push { post } => {
                // The server settles push deliveries itself when the endpoint answers.
                if let Some(p) = self.m.posts.get(post) {
                    if let Some((seq, t, _, false)) = p.answer {
                        if seq < to_seq {
                            if p.accepted() {
                                maybe_acked = true;
                                if t < lo {
                                    // processed by the first quiescent barrier after the answer
                                    if let Some(b) = self.m.barrier_after(seq) {
                                        if b.seq < from_seq {
                                            acked_at = Some((b.seq, b.t));
                                        }
                                    }
                                }
                            } else {
                                nacked = true;
                                lo = lo.min(t);
                            }
                        }
                    }
                }
            }
            _ => {
                let key = (d.sub.clone(), canon_ack(&d.recv.ack_id));
                if let Some(list) = self.mods.get(&key) {
                    // Which request set the deadline that is in force? Requests are processed by the
                    // subscription actor in an order we only partly know: X certainly precedes Y only
                    // if X had certainly been processed (reply / quiescent barrier) before Y was
                    // invoked. Keep every deadline that may be the one in force ("candidates"): the
                    // lease certainly lasts until the smallest and is certainly over at the largest.
                    struct Cand {
                        lo: u64,
                        hi: u64,
                        /// after this sequence number the request can no longer take effect
                        gone_by: Option<u64>,
                        stream: Option<u32>,
                        inv_seq: u64,
                    }
                    let mut cands: Vec<Cand> = vec![Cand { lo, hi, gone_by: Some(d.lo_seq), stream: None, inv_seq: 0 }];
                    for md in list {
                        if md.end_seq.map(|e| e < d.lo_seq).unwrap_or(false) {
                            continue; // over before this id could exist: no effect possible
                        }
                        if md.inv_seq > to_seq {
                            continue; // invoked after the observation
                        }
                        modified = true;
                        let cur_lo = cands.iter().map(|c| c.lo).min().unwrap_or(lo);
                        // certainly applied, and while the delivery was certainly still outstanding
                        let settled = md.definite && md.done_seq.map(|s| s <= from_seq).unwrap_or(false) && md.done_t.map(|t| t < cur_lo).unwrap_or(false);
                        let n = (md.secs.clamp(0, 600) as u64) * 1_000_000;
                        let cand = if md.secs <= 0 {
                            nacked = true;
                            Cand { lo: md.inv_t.min(cur_lo), hi: if settled && md.secs == 0 { md.done_t.unwrap() } else { 0 }, gone_by: if settled { md.done_seq } else { md.end_seq }, stream: md.stream, inv_seq: md.inv_seq }
                        } else if settled {
                            Cand { lo: md.inv_t + n, hi: md.done_t.unwrap() + n + SLACK_US, gone_by: md.done_seq, stream: md.stream, inv_seq: md.inv_seq }
                        } else {
                            Cand { lo: md.inv_t + n, hi: md.done_t.unwrap_or(md.inv_t + SLACK_US) + n + 2 * SLACK_US, gone_by: md.end_seq, stream: md.stream, inv_seq: md.inv_seq }
                        };
                        if settled {
                            // everything that had certainly happened before this request was invoked is replaced
                            cands.retain(|c| !c.gone_by.map(|g| g < md.inv_seq).unwrap_or(false));
                            // ... and so is every earlier control message of the same stream (a gRPC
                            // stream delivers in order, and a later "set the deadline" replaces an earlier one)
                            if md.stream.is_some() {
                                cands.retain(|c| !(c.stream == md.stream && c.inv_seq < md.inv_seq));
                            }
                        }
                        cands.push(cand);
                    }
                    lo = cands.iter().map(|c| c.lo).min().unwrap_or(lo);
                    // a nack that was not certainly applied leaves the upper bound to the others
                    hi = cands.iter().map(|c| c.hi).max().unwrap_or(hi);
                }
                if let Some(list) = self.acks.get(&key) {
                    for (end_seq, inv_seq, done, inv_t) in list {
                        if end_seq.map(|e| e < d.lo_seq).unwrap_or(false) {
                            continue;
                        }
                        if *inv_seq > to_seq {
                            continue;
                        }
                        if *inv_t > hi {
                            // sent when the lease was certainly over: the ack ID is inert by then
                            continue;
                        }
                        maybe_acked = true;
                        if let Some((ds, dt)) = done {
                            if *ds < from_seq && *dt < lo && !nacked && acked_at.is_none() {
                                acked_at = Some((*ds, *dt));
                            }
                        }
                    }
                }
            }
        }
        Lease { lo, hi, maybe_acked, acked_at, modified, nacked, rejected }
    }

    /// The lease with everything that ever happened in the run taken into account.
    pub fn lease(&self, d: &Delivery, deadline_us: u64) -> Lease {
        self.lease_at(d, deadline_us, u64::MAX, u64::MAX)
    }
}

/// Facts about a run, used for the per-property "non-trivial" rules and for evidence.
#[derive(Serialize, Deserialize, Clone, Debug, Default)]
pub struct Facts {
    pub calls: u64,
    pub deliveries: u64,
    pub redeliveries: u64,
    pub publishes_ok: u64,
    pub messages: u64,
    pub max_subs_per_topic: u64,
    pub overlapping_publishes: u64,
    pub overlapping_consumers: u64,
    pub acks_ok: u64,
    pub acks_then_deadline_crossed: u64,
    pub modacks: u64,
    pub nacks: u64,
    pub abandoned: u64,
    pub hangs: u64,
    pub panics: u64,
    pub streams: u64,
    pub stream_items: u64,
    pub stream_resets: u64,
    pub posts: u64,
    pub post_failures: u64,
    pub deletes_sub: u64,
    pub deletes_topic: u64,
    pub clock_jumps: u64,
    pub invalid_argument: u64,
    pub not_found: u64,
    pub parked_woken: u64,
    pub probes_near_deadline: u64,
    pub walks: u64,
    pub pages: u64,
    pub overlapping_name_ops: u64,
    pub streams_open_at_delete: u64,
    pub pulls_parked_at_delete: u64,
    pub max_batch: u64,
    pub big_pulls: u64,
}

pub fn facts(ctx: &Ctx) -> Facts {
    let m = ctx.m;
    let mut f = Facts::default();
    f.calls = m.calls.len() as u64;
    f.deliveries = m.deliveries.iter().filter(|d| d.stage == Stage::Run).count() as u64;
    for (_k, list) in m.deliveries_by_key.iter() {
        if list.len() > 1 {
            f.redeliveries += (list.len() - 1) as u64;
        }
    }
    let mut subs_per_topic: BTreeMap<&str, u64> = BTreeMap::new();
    for (name, creates) in m.sub_creates.iter() {
        let _ = name;
        for c in creates {
            let call = &m.calls[c];
            if call.returned_ok() {
                if let Req::CreateSub { topic, .. } = &call.req {
                    *subs_per_topic.entry(topic.as_str()).or_insert(0) += 1;
                }
            }
        }
    }
    f.max_subs_per_topic = subs_per_topic.values().cloned().max().unwrap_or(0);
    let mut publishes: Vec<&Call> = Vec::new();
    let mut pulls: Vec<&Call> = Vec::new();
    for c in m.calls.values() {
        match (&c.req, &c.out) {
            (Req::Publish { tokens, .. }, Some(Outcome::Ok(_))) => {
                f.publishes_ok += 1;
                f.messages += tokens.len() as u64;
                publishes.push(c);
            }
            (Req::Ack { .. }, Some(Outcome::Ok(_))) => f.acks_ok += 1,
            (Req::ModAck { secs, .. }, _) => {
                if *secs == 0 {
                    f.nacks += 1
                } else {
                    f.modacks += 1
                }
            }
            (Req::DeleteSub { .. }, _) => f.deletes_sub += 1,
            (Req::DeleteTopic { .. }, _) => f.deletes_topic += 1,
            (Req::Walk { .. }, Some(Outcome::Ok(Resp::Walk(p)))) => {
                f.walks += 1;
                f.pages += p.len() as u64;
            }
            (Req::Pull { .. }, Some(Outcome::Ok(Resp::Pulled(r)))) => {
                f.max_batch = f.max_batch.max(r.len() as u64);
                if r.len() >= 1000 {
                    f.big_pulls += 1;
                }
            }
            _ => {}
        }
        if let Req::Pull { .. } = &c.req {
            pulls.push(c);
        }
        match &c.out {
            Some(Outcome::Abandoned(_)) => f.abandoned += 1,
            Some(Outcome::Hang) => f.hangs += 1,
            Some(Outcome::Panic(_)) => f.panics += 1,
            Some(Outcome::Err(INVALID_ARGUMENT, _)) => f.invalid_argument += 1,
            Some(Outcome::Err(NOT_FOUND, _)) => f.not_found += 1,
            _ => {}
        }
    }
    for (i, a) in publishes.iter().enumerate() {
        for b in publishes.iter().skip(i + 1) {
            if a.inv_seq < b.ret_seq_or_max() && b.inv_seq < a.ret_seq_or_max() && topic_of(a) == topic_of(b) {
                f.overlapping_publishes += 1;
            }
        }
    }
    for (i, a) in pulls.iter().enumerate() {
        for b in pulls.iter().skip(i + 1).take(64) {
            if a.inv_seq < b.ret_seq_or_max() && b.inv_seq < a.ret_seq_or_max() && sub_of(a) == sub_of(b) && a.client != b.client {
                f.overlapping_consumers += 1;
            }
        }
    }
    // operations on one resource name that overlapped, at least one of them a create/delete
    {
        let mut by_name: BTreeMap<&str, Vec<&Call>> = BTreeMap::new();
        for c in m.calls.values() {
            let n = match &c.req {
                Req::CreateTopic { topic } | Req::DeleteTopic { topic } | Req::GetTopic { topic } | Req::Publish { topic, .. } => topic.as_str(),
                Req::CreateSub { sub, .. } | Req::DeleteSub { sub } | Req::GetSub { sub } | Req::Pull { sub, .. } | Req::Ack { sub, .. } | Req::ModAck { sub, .. } => sub.as_str(),
                _ => continue,
            };
            by_name.entry(n).or_default().push(c);
        }
        for list in by_name.values() {
            for (i, a) in list.iter().enumerate() {
                for b in list.iter().skip(i + 1).take(32) {
                    let mutating = |c: &Call| matches!(c.req, Req::CreateTopic { .. } | Req::DeleteTopic { .. } | Req::CreateSub { .. } | Req::DeleteSub { .. });
                    if a.inv_seq < b.ret_seq_or_max() && b.inv_seq < a.ret_seq_or_max() && (mutating(a) || mutating(b)) {
                        f.overlapping_name_ops += 1;
                    }
                }
            }
        }
    }
    f.streams = m.streams.len() as u64;
    for s in m.streams.values() {
        f.stream_items += s.items.len() as u64;
        if matches!(s.end, Some((_, _, StreamEnd::Dropped))) {
            f.stream_resets += 1;
        }
    }
    f.posts = m.posts.len() as u64;
    f.post_failures = m.posts.values().filter(|p| p.answer.is_some() && !p.accepted()).count() as u64;
    f.clock_jumps = m.events.iter().filter(|e| matches!(e.ev, Ev::Advance { .. })).count() as u64;
    // Parked blocking pulls that returned with messages.
    for c in pulls.iter() {
        if let (Req::Pull { immediate: false, .. }, Some(Outcome::Ok(Resp::Pulled(r))), Some(rt)) = (&c.req, &c.out, c.ret_t) {
            if !r.is_empty() && rt > c.inv_t {
                f.parked_woken += 1;
            }
        }
    }
    f
}

fn topic_of(c: &Call) -> &str {
    match &c.req {
        Req::Publish { topic, .. } => topic,
        _ => "",
    }
}

fn sub_of(c: &Call) -> &str {
    match &c.req {
        Req::Pull { sub, .. } | Req::Ack { sub, .. } | Req::ModAck { sub, .. } | Req::DeleteSub { sub } | Req::GetSub { sub } | Req::CreateSub { sub, .. } => sub,
        _ => "",
    }
}

fn req_kind(r: &Req) -> &'static str {
    match r {
        Req::CreateTopic { .. } => "CreateTopic",
        Req::DeleteTopic { .. } => "DeleteTopic",
        Req::GetTopic { .. } => "GetTopic",
        Req::CreateSub { .. } => "CreateSubscription",
        Req::DeleteSub { .. } => "DeleteSubscription",
        Req::GetSub { .. } => "GetSubscription",
        Req::ListPage { .. } => "List",
        Req::Walk { .. } => "ListWalk",
        Req::Publish { .. } => "Publish",
        Req::Pull { .. } => "Pull",
        Req::DrainPull { .. } => "Pull",
        Req::Ack { .. } => "Acknowledge",
        Req::ModAck { .. } => "ModifyAckDeadline",
    }
}

fn parse_id(s: &str) -> Option<u128> {
    s.parse::<u128>().ok()
}

// =================================================================================================
// Rules
// =================================================================================================

pub fn evaluate(ctx: &Ctx) -> Vec<Violation> {
    let mut out = Vec::new();
    rule_crash(ctx, &mut out);
    rule_c03(ctx, &mut out);
    rule_c02(ctx, &mut out);
    rule_c01_spurious(ctx, &mut out);
    rule_c01_drain(ctx, &mut out);
    rule_c07(ctx, &mut out);
    rule_c08(ctx, &mut out);
    rule_c09(ctx, &mut out);
    rule_c15(ctx, &mut out);
    rule_c06(ctx, &mut out);
    rule_quiescent_late(ctx, &mut out);
    rule_vanished(ctx, &mut out);
    rule_c12(ctx, &mut out);
    rule_c12_race(ctx, &mut out);
    rule_seq(ctx, &mut out);
    crate::oracle2::evaluate_more(ctx, &mut out);
    // Stable order, no duplicates of the same (rule, key).
    let mut seen = HashSet::new();
    out.retain(|x| seen.insert((x.rule.clone(), x.key.clone())));
    out
}

/// Panics anywhere in deltio code (C17.status, and crash-class for everything else).
fn rule_crash(ctx: &Ctx, out: &mut Vec<Violation>) {
    for c in ctx.m.calls.values() {
        if let Some(Outcome::Panic(msg)) = &c.out {
            out.push(v("CRASH.panic", format!("panic in {}", req_kind(&c.req)), format!("call {} {:?} panicked: {}", c.id, c.req, msg)));
        }
    }
    for s in ctx.m.streams.values() {
        if let Some((_, _, StreamEnd::Panic(msg))) = &s.end {
            out.push(v("CRASH.panic", "panic in StreamingPull", format!("stream {} panicked: {}", s.slot, msg)));
        }
    }
}

/// C03: exclusive lease, fresh ack IDs, no duplicate inside a response.
fn rule_c03(ctx: &Ctx, out: &mut Vec<Violation>) {
    let m = ctx.m;
    // dup in response
    let mut by_response: BTreeMap<usize, Vec<&Delivery>> = BTreeMap::new();
    for d in m.deliveries.iter() {
        by_response.entry(d.response).or_default().push(d);
    }
    for (_r, ds) in by_response.iter() {
        let mut seen = HashSet::new();
        for d in ds {
            if !seen.insert(&d.recv.msg_id) {
                out.push(v("C03.dup_in_response", "dup", format!("message {} twice in one response on {}", d.recv.msg_id, d.sub)));
            }
        }
    }
    // ack id reuse
    for ((sub, ack), list) in m.delivery_by_ack.iter() {
        if list.len() > 1 && m.unique_sub(sub).is_some() {
            out.push(v("C03.ackid", "ackid", format!("ack id {} used {} times on {}", ack, list.len(), sub)));
        }
    }
    // double hand-out
    for ((sub, msg), list) in m.deliveries_by_key.iter() {
        if list.len() < 2 {
            continue;
        }
        let inst = match m.unique_sub(sub) {
            Some(i) => i,
            None => continue,
        };
        for (i, &a) in list.iter().enumerate() {
            let d = &m.deliveries[a];
            for &b in list.iter().skip(i + 1).take(PAIR_WINDOW) {
                let d2 = &m.deliveries[b];
                let lease = ctx.lease_at(d, inst.deadline_us(), d2.lo_seq, d2.recv_seq);
                if lease.maybe_acked {
                    continue;
                }
                if m.definitely_before(d, d2) && d2.recv_t < lease.lo {
                    also_rejected(out, &lease, &format!("{}: message {} handed out again inside its lease", sub, msg));
                    out.push(v(
                        "C03.double",
                        "double",
                        format!(
                            "message {} on {}: delivery ack={} (handed out in [{},{}]us, lease certainly until {}us) and again ack={} received at {}us",
                            msg, sub, d.recv.ack_id, d.lo_t, d.recv_t, lease.lo, d2.recv.ack_id, d2.recv_t
                        ),
                    ));
                }
            }
        }
    }
}

/// C02: an acknowledged delivery is never delivered again.
fn rule_c02(ctx: &Ctx, out: &mut Vec<Violation>) {
    let m = ctx.m;
    for ((sub, msg), list) in m.deliveries_by_key.iter() {
        if list.len() < 2 {
            continue;
        }
        let inst = match m.unique_sub(sub) {
            Some(i) => i,
            None => continue,
        };
        for (i, &a) in list.iter().enumerate() {
            let d = &m.deliveries[a];
            for &b in list.iter().skip(i + 1).take(PAIR_WINDOW) {
                let d2 = &m.deliveries[b];
                let lease = ctx.lease_at(d, inst.deadline_us(), d2.lo_seq, d2.recv_seq);
                let (ack_seq, ack_t) = match lease.acked_at {
                    Some(x) => x,
                    None => continue,
                };
                let after = if d2.lo_seq > 0 { ack_seq < d2.lo_seq } else { ack_t < d2.lo_t };
                if after {
                    out.push(v(
                        "C02.resurrect",
                        "resurrect",
                        format!("message {} on {}: ack of {} took effect at {}us (seq {}), delivered again with ack={} (handed out after seq {}, received {}us)", msg, sub, d.recv.ack_id, ack_t, ack_seq, d2.recv.ack_id, d2.lo_seq, d2.recv_t),
                    ));
                }
            }
        }
    }
}

/// C01.spurious: nothing from another topic, nothing published before the subscription existed.
fn rule_c01_spurious(ctx: &Ctx, out: &mut Vec<Violation>) {
    let m = ctx.m;
    for d in m.deliveries.iter() {
        let inst = match m.unique_sub(&d.sub) {
            Some(i) => i,
            None => continue,
        };
        let create = &m.calls[&inst.create_call];
        match m.published_of(d) {
            None => {
                // Unknown message: only legal if some publish to this topic did not return OK
                // (its IDs are unknown to us) and carried no token.
                let unknown_possible = m.calls.values().any(|c| matches!(&c.req, Req::Publish { topic, .. } if *topic == inst.topic) && !c.returned_ok() && c.maybe_effective());
                if !unknown_possible {
                    out.push(v("C01.spurious", "unknown", format!("delivery of unknown message id={} token={} on {}", d.recv.msg_id, d.recv.token, d.sub)));
                }
            }
            Some(p) => {
                if p.topic != inst.topic {
                    out.push(v("C01.spurious", "other_topic", format!("{} (on {}) received message {} published to {}", d.sub, inst.topic, d.recv.msg_id, p.topic)));
                    continue;
                }
                let pc = &m.calls[&p.call];
                // (a Publish whose client went away has no completion: it may be processed any time later)
                if pc.effect_end_seq() < create.inv_seq {
                    out.push(v("C01.spurious", "before_create", format!("{} received message {} whose Publish returned (seq {}) before the subscription's creation began (seq {})", d.sub, d.recv.msg_id, pc.effect_end_seq(), create.inv_seq)));
                }
                // Orphaned by DeleteTopic: must not receive messages of a re-created topic.
                if let Some(dels) = m.topic_deletes.get(&inst.topic) {
                    for dc in dels {
                        let del = &m.calls[dc];
                        if del.returned_ok() && inst.established_seq < del.inv_seq && del.ret_seq.unwrap() < pc.inv_seq {
                            out.push(v("C11.orphan_receives", "orphan", format!("{} was orphaned by DeleteTopic (returned seq {}) but received message {} published afterwards (seq {})", d.sub, del.ret_seq.unwrap(), d.recv.msg_id, pc.inv_seq)));
                        }
                    }
                }
            }
        }
    }
}

fn drain_ok_for(ctx: &Ctx, sub: &str) -> bool {
    // Every drain pull on the subscription returned OK (the drain could look at it).
    let m = ctx.m;
    let (ds, de) = match (m.drain_start, m.drain_end) {
        (Some(a), Some(b)) => (a.0, b.0),
        _ => return false,
    };
    let mut any = false;
    for c in m.calls.values() {
        if c.inv_seq > ds && c.inv_seq < de {
            if let Req::Pull { sub: s, .. } = &c.req {
                if s == sub {
                    any = true;
                    // NOT_FOUND for a subscription nobody ever asked to delete is itself an
                    // answer: it vanished, and whatever it had not delivered is lost.
                    let vanished = c.code() == Some(NOT_FOUND);
                    if !c.returned_ok() && !vanished {
                        return false;
                    }
                }
            }
        }
    }
    any
}

/// C01.lost / C01.redelivery / C01.conservation, judged after the final drain.
fn rule_c01_drain(ctx: &Ctx, out: &mut Vec<Violation>) {
    let m = ctx.m;
    if !ctx.plan.final_drain || m.drain_end.is_none() {
        return;
    }
    let drain_start_seq = m.drain_start.unwrap().0;
    // Subscriptions eligible for obligations.
    let mut eligible: Vec<SubInst> = Vec::new();
    for name in m.sub_creates.keys() {
        let inst = match m.unique_sub(name) {
            Some(i) => i,
            None => continue,
        };
        if m.sub_delete_ever(name) || inst.deadline_us() > 600 * 1_000_000 {
            continue;
        }
        if m.unique_topic(&inst.topic).is_none() {
            continue;
        }
        if !drain_ok_for(ctx, name) {
            continue;
        }
        eligible.push(inst);
    }
    for inst in eligible.iter() {
        let create = &m.calls[&inst.create_call];
        let topic_create = m.unique_topic(&inst.topic).unwrap();
        if topic_create.ret_seq_or_max() > create.inv_seq {
            continue;
        }
        for p in m.published.iter() {
            if p.topic != inst.topic || p.stage != Stage::Run {
                continue;
            }
            let pc = &m.calls[&p.call];
            let id = match (&p.msg_id, pc.returned_ok()) {
                (Some(id), true) => id,
                _ => continue,
            };
            if !(inst.established_seq < pc.inv_seq) {
                continue;
            }
            if m.topic_delete_invoked_before(&inst.topic, pc.ret_seq.unwrap()) {
                continue;
            }
            let key = (inst.name.clone(), id.clone());
            let list = m.deliveries_by_key.get(&key);
            match list {
                None => {
                    out.push(v("C01.lost", "lost", format!("message {} (publish call {}, token {}) was never delivered on {} (exists since seq {}, publish invoked seq {})", id, p.call, p.token, inst.name, inst.established_seq, pc.inv_seq)));
                }
                Some(list) => {
                    // Was any of its deliveries ever named by an acknowledgement?
                    let mut ever_acked = false;
                    let mut rejected_lease = None;
                    for &di in list {
                        let d = &m.deliveries[di];
                        let lease = ctx.lease(d, inst.deadline_us());
                        if lease.maybe_acked {
                            ever_acked = true;
                        }
                        if lease.rejected.is_some() {
                            rejected_lease = Some(lease);
                        }
                    }
                    if !ever_acked {
                        let in_drain = list.iter().any(|&di| m.deliveries[di].recv_seq > drain_start_seq);
                        if !in_drain {
                            if let Some(l) = &rejected_lease {
                                also_rejected(out, l, &format!("{}: message {} was never acknowledged by an accepted request but is gone", inst.name, id));
                            }
                            out.push(v("C01.redelivery", "not_redelivered", format!("message {} on {} was delivered {} time(s), never acknowledged, but was not redelivered in the final drain", id, inst.name, list.len())));
                        }
                    }
                }
            }
        }
    }
    // Conservation at the end of the drain: a subscription that still exists (whatever happened to
    // its topic, whatever deletes were attempted) and whose drain pulls were all answered OK has
    // handed out everything it holds, and everything was acknowledged: nothing may be left.
    let de = m.drain_end.unwrap().0;
    for name in m.sub_creates.keys() {
        let inst = match m.unique_sub(name) {
            Some(i) => i,
            None => continue,
        };
        if inst.push.is_some() || inst.deadline_us() > 600 * 1_000_000 {
            continue;
        }
        // every drain pull OK (not NOT_FOUND, not an error): the subscription was there and answered
        let mut pulls = 0;
        let mut all_ok = true;
        for c in m.calls.values() {
            if c.inv_seq > drain_start_seq && c.inv_seq < de {
                if let Req::Pull { sub, .. } = &c.req {
                    if sub == name {
                        pulls += 1;
                        all_ok &= c.returned_ok();
                    }
                }
            }
        }
        if pulls == 0 || !all_ok {
            continue;
        }
        if let Some(st) = m.stats.iter().rev().find(|s| s.sub == *name && s.seq < de && s.seq > drain_start_seq) {
            if st.found && st.backlog + st.outstanding != 0 {
                out.push(v("C01.conservation", "residue", format!("{}: after draining and acknowledging everything it hands out, backlog={} outstanding={} remain", name, st.backlog, st.outstanding)));
            }
        }
    }
}

/// C07: every request terminates.
fn rule_c07(ctx: &Ctx, out: &mut Vec<Violation>) {
    let m = ctx.m;
    let mut hung: Vec<&Call> = Vec::new();
    for c in m.calls.values() {
        match (&c.req, &c.out) {
            (Req::Pull { immediate, .. }, Some(o)) => {
                let dur = c.ret_t.unwrap() - c.inv_t;
                let hang = matches!(o, Outcome::Hang);
                if hang {
                    hung.push(c);
                } else if !matches!(o, Outcome::Abandoned(_)) {
                    if *immediate && dur >= PULL_LIMIT_US {
                        hung.push(c);
                    } else if dur > PULL_LIMIT_US + SLACK_US {
                        out.push(v("C07.pull_limit", "pull_limit", format!("blocking Pull call {} returned after {} us", c.id, dur)));
                    }
                }
            }
            (_, Some(Outcome::Hang)) => hung.push(c),
            _ => {}
        }
    }
    for s in m.streams.values() {
        if matches!(s.started, Some((_, _, -2))) {
            out.push(v("C07.hang", "StreamingPull open", format!("StreamingPull on {} never started", s.sub)));
        }
    }
    if !hung.is_empty() {
        let kinds: BTreeSet<&str> = hung.iter().map(|c| req_kind(&c.req)).collect();
        let health = hung.iter().all(|c| m.health_start.map(|h| c.inv_seq > h.0).unwrap_or(false));
        // The wait-for cycle topic actor <-> subscription actor always involves these two.
        let key = if kinds.contains("DeleteSubscription") && kinds.contains("Publish") {
            "hang:DeleteSubscription+Publish".to_string()
        } else {
            format!("hang:{}", kinds.iter().cloned().collect::<Vec<_>>().join("+"))
        };
        let detail = format!(
            "{} call(s) never returned: {}",
            hung.len(),
            hung.iter().take(6).map(|c| format!("#{} {} inv@{}us", c.id, req_kind(&c.req), c.inv_t)).collect::<Vec<_>>().join(", ")
        );
        out.push(v(if health { "C07.wedged" } else { "C07.hang" }, key, detail));
    }
}

/// C08: IDs per publish, order of IDs, order of first deliveries.
fn rule_c08(ctx: &Ctx, out: &mut Vec<Violation>) {
    let m = ctx.m;
    let mut publishes_by_topic: BTreeMap<&str, Vec<&Call>> = BTreeMap::new();
    for c in m.calls.values() {
        if let (Req::Publish { topic, tokens, .. }, Some(Outcome::Ok(Resp::Published(ids)))) = (&c.req, &c.out) {
            if ids.len() != tokens.len() {
                out.push(v("C08.count", "count", format!("Publish call {} sent {} messages, got {} ids", c.id, tokens.len(), ids.len())));
                continue;
            }
            let nums: Vec<Option<u128>> = ids.iter().map(|s| parse_id(s)).collect();
            for w in nums.windows(2) {
                if let (Some(a), Some(b)) = (w[0], w[1]) {
                    if !(a < b) {
                        out.push(v("C08.batch", "batch", format!("Publish call {}: ids not increasing: {:?}", c.id, ids)));
                        break;
                    }
                }
            }
            if m.unique_topic(topic).is_some() {
                publishes_by_topic.entry(topic.as_str()).or_default().push(c);
            }
        }
    }
    for (topic, list) in publishes_by_topic.iter() {
        for a in list.iter() {
            for b in list.iter() {
                if a.ret_seq_or_max() < b.inv_seq {
                    if let (Some(Outcome::Ok(Resp::Published(ia))), Some(Outcome::Ok(Resp::Published(ib)))) = (&a.out, &b.out) {
                        let max_a = ia.iter().filter_map(|s| parse_id(s)).max();
                        let min_b = ib.iter().filter_map(|s| parse_id(s)).min();
                        if let (Some(x), Some(y)) = (max_a, min_b) {
                            if !(x < y) {
                                out.push(v("C08.realtime", "realtime", format!("topic {}: Publish {} returned before Publish {} began, but ids {:?} !< {:?}", topic, a.id, b.id, ia, ib)));
                            }
                        }
                    }
                }
            }
        }
    }
    // Contiguity seen from the IDs: first deliveries follow ID order and the messages of one request
    // stay contiguous, so on a topic with a subscription attached throughout, no other request's
    // ID may lie inside the ID range of a request.
    for (topic, list) in publishes_by_topic.iter() {
        let attached_since = m
            .sub_creates
            .keys()
            .filter_map(|n| m.unique_sub(n))
            .filter(|i| i.topic == *topic && !m.sub_delete_ever(&i.name))
            .map(|i| i.established_seq)
            .min();
        let since = match attached_since {
            Some(s) => s,
            None => continue,
        };
        if m.topic_deletes.contains_key(*topic) {
            continue;
        }
        let ranges: Vec<(u32, u128, u128, Vec<u128>)> = list
            .iter()
            .filter(|c| c.inv_seq > since)
            .filter_map(|c| match &c.out {
                Some(Outcome::Ok(Resp::Published(ids))) => {
                    let nums: Vec<u128> = ids.iter().filter_map(|s| parse_id(s)).collect();
                    if nums.is_empty() {
                        None
                    } else {
                        Some((c.id, *nums.iter().min().unwrap(), *nums.iter().max().unwrap(), nums))
                    }
                }
                _ => None,
            })
            .collect();
        for (ca, lo, hi, _) in ranges.iter() {
            for (cb, _, _, nums) in ranges.iter() {
                if ca != cb && nums.iter().any(|x| x > lo && x < hi) {
                    out.push(v("C08.contiguous", "interleaved_ids", format!("topic {}: an ID of Publish call {} lies inside the ID range [{}, {}] of Publish call {}: the two requests' messages are interleaved in acceptance order", topic, cb, lo, hi, ca)));
                }
            }
        }
    }
    // Delivery order of first deliveries, per subscription without unobserved deliveries.
    let mut subs: BTreeSet<&str> = BTreeSet::new();
    for d in m.deliveries.iter() {
        subs.insert(d.sub.as_str());
    }
    for sub in subs {
        let inst = match m.unique_sub(sub) {
            Some(i) => i,
            None => continue,
        };
        if m.unique_topic(&inst.topic).is_none() || sub_has_unobserved(ctx, sub) {
            continue;
        }
        // first delivery per message
        let mut firsts: Vec<&Delivery> = Vec::new();
        let mut seen = HashSet::new();
        for d in m.deliveries.iter().filter(|d| d.sub == sub) {
            if seen.insert(d.recv.msg_id.clone()) {
                firsts.push(d);
            }
        }
        // pairwise order
        let window = if firsts.len() <= 400 { usize::MAX } else { 32 };
        for (i, a) in firsts.iter().enumerate() {
            for b in firsts.iter().skip(i + 1).take(window) {
                let a_before_b = (a.response == b.response && a.pos < b.pos) || (a.response != b.response && m.definitely_before(a, b));
                let b_before_a = (a.response == b.response && b.pos < a.pos) || (a.response != b.response && m.definitely_before(b, a));
                if let (Some(x), Some(y)) = (parse_id(&a.recv.msg_id), parse_id(&b.recv.msg_id)) {
                    if (a_before_b && !(x < y)) || (b_before_a && !(y < x)) {
                        out.push(v("C08.delivery", "delivery_order", format!("{}: first deliveries out of publish order: {} (resp {} pos {}) vs {} (resp {} pos {})", sub, a.recv.msg_id, a.response, a.pos, b.recv.msg_id, b.response, b.pos)));
                    }
                }
            }
        }
        // contiguity inside one response
        let mut by_resp: BTreeMap<usize, Vec<&Delivery>> = BTreeMap::new();
        for d in firsts.iter() {
            by_resp.entry(d.response).or_default().push(d);
        }
        for (_r, ds) in by_resp.iter() {
            let mut closed: HashSet<u32> = HashSet::new();
            let mut current: Option<u32> = None;
            let mut last_idx: HashMap<u32, usize> = HashMap::new();
            for d in ds.iter() {
                if let Some(p) = m.published_of(d) {
                    if current != Some(p.call) {
                        if let Some(c) = current {
                            closed.insert(c);
                        }
                        if closed.contains(&p.call) {
                            out.push(v("C08.contiguous", "contiguous", format!("{}: messages of Publish call {} interleaved with another request's inside one response", sub, p.call)));
                        }
                        current = Some(p.call);
                    }
                    if let Some(prev) = last_idx.get(&p.call) {
                        if *prev >= p.idx {
                            out.push(v("C08.contiguous", "request_order", format!("{}: messages of Publish call {} not in request order", sub, p.call)));
                        }
                    }
                    last_idx.insert(p.call, p.idx);
                }
            }
        }
    }
}

/// True if some delivery on the subscription may have happened without us seeing it
/// (abandoned / hung pulls, dropped streams, push posts we could not parse).
pub fn sub_has_unobserved(ctx: &Ctx, sub: &str) -> bool {
    let m = ctx.m;
    for c in m.calls.values() {
        if let Req::Pull { sub: s, .. } = &c.req {
            if s == sub && !matches!(c.out, Some(Outcome::Ok(_)) | Some(Outcome::Err(_, _))) {
                return true;
            }
        }
    }
    for s in m.streams.values() {
        if s.sub == sub {
            match &s.end {
                Some((_, _, StreamEnd::Dropped)) | Some((_, _, StreamEnd::Panic(_))) | None => return true,
                _ => {}
            }
        }
    }
    m.posts.values().any(|p| p.sub == sub && !p.parse_ok)
}

/// C09: fields intact, stable publish time, unique ids.
fn rule_c09(ctx: &Ctx, out: &mut Vec<Violation>) {
    let m = ctx.m;
    for (id, list) in m.by_msg_id.iter() {
        if list.len() > 1 {
            out.push(v("C09.unique", "dup_id", format!("message id {} returned for {} different published messages", id, list.len())));
        }
    }
    // Two different messages (by the token the harness put into each payload) delivered under one
    // message ID, whether or not a Publish ever returned that ID (a publish that failed half-way
    // through the fan-out has delivered to some subscriptions).
    {
        let mut seen: HashMap<&str, &str> = HashMap::new();
        let mut reported: HashSet<&str> = HashSet::new();
        for d in m.deliveries.iter() {
            if d.recv.token.is_empty() {
                continue;
            }
            match seen.get(d.recv.msg_id.as_str()) {
                None => {
                    seen.insert(d.recv.msg_id.as_str(), d.recv.token.as_str());
                }
                Some(t) if *t != d.recv.token.as_str() => {
                    if reported.insert(d.recv.msg_id.as_str()) {
                        let detail = format!("message id {} was delivered for two different messages (tokens {} and {}; the second on {})", d.recv.msg_id, t, d.recv.token, d.sub);
                        out.push(v("C09.unique", "dup_delivered", detail.clone()));
                        out.push(v("C08.ids", "reused", detail));
                    }
                }
                _ => {}
            }
        }
    }
    // The ID under which a message is delivered is the ID that Publish returned for it, at its
    // position in the request (the token in the payload says which request and which position).
    {
        let by_token: HashMap<&str, &str> = m.published.iter().filter(|p| !p.token.is_empty()).filter_map(|p| p.msg_id.as_deref().map(|id| (p.token.as_str(), id))).collect();
        let mut reported: HashSet<&str> = HashSet::new();
        for d in m.deliveries.iter() {
            if let Some(id) = by_token.get(d.recv.token.as_str()) {
                if *id != d.recv.msg_id.as_str() && reported.insert(d.recv.token.as_str()) {
                    let detail = format!("message with token {} was answered with ID {} by Publish but is delivered with ID {} (on {})", d.recv.token, id, d.recv.msg_id, d.sub);
                    out.push(v("C08.request_order", "id_of_message", detail.clone()));
                    out.push(v("C09.fields", "message_id", detail));
                }
            }
        }
    }
    // A push body that cannot be read back (not JSON, data not standard base64, no message id)
    // did not deliver the published bytes.
    for p in m.posts.values() {
        if !p.parse_ok {
            out.push(v("C09.fields", "push_undecodable", format!("POST #{} to {}: the body cannot be decoded back into the message (JSON with message.data as standard base64, message.message_id)", p.post, p.url)));
        }
    }
    let mut times: HashMap<&str, (i64, i32)> = HashMap::new();
    for d in m.deliveries.iter() {
        let p = match m.by_msg_id.get(&d.recv.msg_id) {
            Some(l) if l.len() == 1 => &m.published[l[0]],
            _ => continue,
        };
        let via = match d.via {
            Via::Pull { .. } => "pull",
            Via::Stream { .. } => "stream",
            Via::Push { .. } => "push",
        };
        if d.recv.data_hash != p.data_hash || d.recv.data_len != p.data_len {
            out.push(v("C09.fields", format!("data:{via}"), format!("{} delivery of {} on {}: data differs (len {} vs published {})", via, d.recv.msg_id, d.sub, d.recv.data_len, p.data_len)));
        }
        if d.recv.attrs_hash != p.attrs_hash || d.recv.attrs_len != p.attrs_len {
            out.push(v("C09.fields", format!("attributes:{via}"), format!("{} delivery of {} on {}: attributes differ ({} vs published {} entries)", via, d.recv.msg_id, d.sub, d.recv.attrs_len, p.attrs_len)));
        }
        if let Via::Push { post } = d.via {
            let pi = &m.posts[&post];
            if pi.msg_id_dupe != d.recv.msg_id {
                out.push(v("C09.fields", "messageId:push", format!("push payload messageId {} != message_id {}", pi.msg_id_dupe, d.recv.msg_id)));
            }
        } else {
            match d.recv.publish_time {
                None => out.push(v("C09.time", "missing", format!("delivery of {} on {} has no publish_time", d.recv.msg_id, d.sub))),
                Some(t) => {
                    let e = times.entry(d.recv.msg_id.as_str()).or_insert(t);
                    if *e != t {
                        out.push(v("C09.time", "changed", format!("publish_time of {} changed between deliveries", d.recv.msg_id)));
                    }
                }
            }
        }
    }
}

/// C15: batch limits and empty responses.
fn rule_c15(ctx: &Ctx, out: &mut Vec<Violation>) {
    let m = ctx.m;
    for c in m.calls.values() {
        if let (Req::Pull { max, immediate, sub, .. }, Some(Outcome::Ok(Resp::Pulled(r)))) = (&c.req, &c.out) {
            if *max >= 1 && r.len() as i64 > *max as i64 {
                out.push(v("C15.max", "pull", format!("Pull(max_messages={}) on {} returned {} messages", max, sub, r.len())));
            }
            if r.is_empty() && !*immediate {
                let dur = c.ret_t.unwrap() - c.inv_t;
                if dur < PULL_LIMIT_US {
                    out.push(v("C15.empty", "early_empty", format!("blocking Pull call {} on {} returned empty after {} us", c.id, sub, dur)));
                }
            }
        }
    }
    for s in m.streams.values() {
        if s.max_msgs > 0 {
            for (_, _, n) in s.items.iter() {
                if *n as i64 > s.max_msgs {
                    out.push(v("C15.max", "stream", format!("StreamingPull(max_outstanding_messages={}) response with {} messages", s.max_msgs, n)));
                }
            }
        }
    }
}

/// Consumers parked on `sub` across [from_seq, to_seq]: background pulls not returned and not
/// cancelled, streams started and not ended / dropped.
fn parked_consumers(ctx: &Ctx, sub: &str, from_seq: u64, to_seq: u64) -> Vec<String> {
    let m = ctx.m;
    let mut res = Vec::new();
    for c in m.calls.values() {
        if let Req::Pull { sub: s, immediate: false, bg_slot, max, .. } = &c.req {
            if s == sub && c.inv_seq < from_seq && c.ret_seq_or_max() > to_seq && *max != 0 {
                if let Some(slot) = bg_slot {
                    if m.cancel_bg.get(slot).map(|cs| *cs < to_seq).unwrap_or(false) {
                        continue;
                    }
                }
                res.push(format!("Pull#{}", c.id));
            }
        }
    }
    for st in m.streams.values() {
        if st.sub == sub {
            if let Some((ss, _, OK)) = st.started {
                let ended = st.end.as_ref().map(|(es, _, _)| *es < to_seq).unwrap_or(false);
                // a client that is not reading its responses cannot take messages
                let stalled = st.stalls.iter().any(|(on, off)| *on <= to_seq && off.map(|o| o >= from_seq).unwrap_or(true));
                if ss < from_seq && !ended && !stalled {
                    res.push(format!("Stream#{}", st.slot));
                }
            }
        }
    }
    res
}

/// C06.quiescent: at two consecutive quiescent snapshots a subscription has a backlog while a
/// consumer is parked on it.
fn rule_c06(ctx: &Ctx, out: &mut Vec<Violation>) {
    let m = ctx.m;
    if m.drain_start.is_some() {
        // only snapshots before the drain count
    }
    let limit = m.drain_start.map(|d| d.0).unwrap_or(u64::MAX);
    let mut by_sub: BTreeMap<&str, Vec<&StatsInfo>> = BTreeMap::new();
    for s in m.stats.iter().filter(|s| s.seq < limit) {
        by_sub.entry(s.sub.as_str()).or_default().push(s);
    }
    for (sub, list) in by_sub.iter() {
        if m.sub_delete_ever(sub) {
            continue;
        }
        for w in list.windows(2) {
            let (a, b) = (w[0], w[1]);
            if !(a.found && b.found && a.backlog > 0 && b.backlog > 0) {
                continue;
            }
            // both snapshots belong to the same audit: exactly one barrier between them, quiescent
            let between: Vec<&BarrierInfo> = m.barriers.iter().filter(|x| x.seq > a.seq && x.seq < b.seq).collect();
            if between.len() != 1 || !between[0].quiescent {
                continue;
            }
            // ... and the barrier in front of the first snapshot belongs to the same audit (same
            // phase) and was quiescent too: the two views are >= 20 ms of quiescence apart, so a
            // wake-up that was merely in progress at the first view has completed by the second.
            let before = m.barriers.iter().rev().find(|x| x.seq < a.seq);
            let before_ok = before.map(|x| x.quiescent && x.phase == between[0].phase).unwrap_or(false);
            if !before_ok {
                continue;
            }
            let parked = parked_consumers(ctx, sub, a.seq, b.seq);
            if !parked.is_empty() {
                out.push(v("C06.quiescent", "lost_wakeup", format!("{}: backlog {} (then {}) at quiescence while {} parked", sub, a.backlog, b.backlog, parked.join(","))));
            }
        }
    }
}

/// C04.late / C05.late / C05.nack, key quiescent_late: a delivery whose lease is certainly over is
/// handed out again when a consumer is waiting. Decided at two consecutive quiescent barriers of
/// one audit: the lease was certainly over before the first, a consumer that can take messages
/// was parked on the subscription across both, yet no later delivery of the message exists by the
/// second. Only for subscriptions whose every consumer's observations are complete (no abandoned or
/// unanswered Pull, no dropped stream: those may have taken the message unseen).
fn rule_quiescent_late(ctx: &Ctx, out: &mut Vec<Violation>) {
    let m = ctx.m;
    let limit = m.drain_start.map(|d| d.0).unwrap_or(u64::MAX);
    let mut pairs: Vec<(&BarrierInfo, &BarrierInfo)> = Vec::new();
    for w in m.barriers.windows(2) {
        if w[0].quiescent && w[1].quiescent && w[0].phase == w[1].phase && w[1].seq < limit {
            pairs.push((&w[0], &w[1]));
        }
    }
    if pairs.is_empty() {
        return;
    }
    let mut subs: BTreeSet<String> = BTreeSet::new();
    for d in m.deliveries.iter() {
        subs.insert(d.sub.clone());
    }
    for sub in subs {
        let inst = match m.unique_sub(&sub) {
            Some(i) => i,
            None => continue,
        };
        if m.sub_delete_ever(&sub) || inst.push.is_some() {
            continue;
        }
        let incomplete_pull = m.calls.values().any(|c| matches!(&c.req, Req::Pull { sub: s, .. } | Req::DrainPull { sub: s } if *s == sub) && c.inv_seq < limit && match &c.out { Some(Outcome::Ok(_)) | Some(Outcome::Err(_, _)) | None => false, Some(_) => c.ret_seq.map(|r| r < limit).unwrap_or(true) });
        let incomplete_stream = m.streams.values().any(|st| st.sub == sub && st.window > 0) || m.streams.values().any(|st| st.sub == sub && matches!(&st.end, Some((es, _, e)) if *es < limit && !matches!(e, StreamEnd::Status(_, _) | StreamEnd::Eof)));
        let cancelled_bg = m.calls.values().any(|c| matches!(&c.req, Req::Pull { sub: s, bg_slot: Some(slot), .. } if *s == sub && m.cancel_bg.contains_key(slot)));
        if incomplete_pull || incomplete_stream || cancelled_bg {
            continue;
        }
        let keys: Vec<&(String, String)> = m.deliveries_by_key.keys().filter(|k| k.0 == sub).collect();
        for (b1, b2) in pairs.iter() {
            let parked = parked_consumers(ctx, &sub, b1.seq, b2.seq);
            if parked.is_empty() {
                continue;
            }
            for key in keys.iter() {
                let list = &m.deliveries_by_key[*key];
                let d = match list.iter().map(|&i| &m.deliveries[i]).filter(|d| d.recv_seq < b1.seq).last() {
                    Some(d) => d,
                    None => continue,
                };
                if list.iter().any(|&i| m.deliveries[i].recv_seq > d.recv_seq && m.deliveries[i].recv_seq < b2.seq) {
                    continue;
                }
                let lease = ctx.lease_at(d, inst.deadline_us(), b1.seq, b1.seq);
                if lease.maybe_acked || lease.acked_at.is_some() {
                    continue;
                }
                if lease.hi < b1.t {
                    let fam = if lease.modified { "C05" } else { "C04" };
                    let rule = if lease.nacked { "C05.nack".to_string() } else { format!("{fam}.late") };
                    let detail = format!("{}: message {} (ack id {}, lease certainly over at {}us) was not delivered again by the quiescent barriers at {}us / {}us although {} waited", sub, key.1, d.recv.ack_id, lease.hi, b1.t, b2.t, parked.join(","));
                    also_rejected(out, &lease, &detail);
                    out.push(v(&rule, "quiescent_late", detail));
                }
            }
        }
    }
}

/// C01.conservation, key vanished_at_audit: at a quiescent audit a subscription that exists holds
/// (in its backlog) every message that was published to its topic after it was established and
/// has not been delivered on it yet. Counted against the backlog figure of the statistics hook.
/// Only for subscriptions whose consumers' observations are complete (see quiescent_late), that
/// were never deleted successfully, on a topic that was created once; publishes that overlap a
/// DeleteTopic are left out.
fn rule_vanished(ctx: &Ctx, out: &mut Vec<Violation>) {
    let m = ctx.m;
    let limit = m.drain_start.map(|d| d.0).unwrap_or(u64::MAX).min(m.health_start.map(|h| h.0).unwrap_or(u64::MAX));
    let mut subs: BTreeSet<String> = BTreeSet::new();
    for n in m.sub_creates.keys() {
        subs.insert(n.clone());
    }
    for sub in subs {
        let inst = match m.unique_sub(&sub) {
            Some(i) => i,
            None => continue,
        };
        if inst.push.is_some() || m.unique_topic(&inst.topic).is_none() {
            continue;
        }
        // A delete that was answered OK, or hangs, ends the subscription's life for this rule. One
        // that was answered with an error, or whose client went away, has done whatever it was going
        // to do by the next quiescent barrier; if the subscription is found after that, it exists,
        // and what is published from then on counts (`floor`).
        let dels: Vec<&Call> = m.sub_deletes.get(&sub).map(|v| v.iter().map(|c| &m.calls[c]).collect()).unwrap_or_default();
        let first_effective_delete = dels.iter().filter(|c| !matches!(c.out, Some(Outcome::Err(_, _)) | Some(Outcome::Abandoned(_)))).map(|c| c.inv_seq).min().unwrap_or(u64::MAX);
        let incomplete_pull = m.calls.values().any(|c| matches!(&c.req, Req::Pull { sub: s, .. } | Req::DrainPull { sub: s } if *s == sub) && c.inv_seq < limit && match &c.out { Some(Outcome::Ok(_)) | Some(Outcome::Err(_, _)) | None => false, Some(_) => c.ret_seq.map(|r| r < limit).unwrap_or(true) });
        let incomplete_stream = m.streams.values().any(|st| st.sub == sub && st.window > 0) || m.streams.values().any(|st| st.sub == sub && (matches!(&st.end, Some((es, _, e)) if *es < limit && !matches!(e, StreamEnd::Status(_, _) | StreamEnd::Eof)) || !matches!(st.started, Some((_, _, _)))));
        let cancelled_bg = m.calls.values().any(|c| matches!(&c.req, Req::Pull { sub: s, bg_slot: Some(slot), .. } if *s == sub && m.cancel_bg.contains_key(slot)));
        if incomplete_pull || incomplete_stream || cancelled_bg {
            continue;
        }
        let topic_deletes: Vec<&Call> = m.topic_deletes.get(&inst.topic).map(|v| v.iter().map(|c| &m.calls[c]).collect()).unwrap_or_default();
        let candidates: Vec<(&Published, &Call)> = m
            .published
            .iter()
            .filter(|p| p.topic == inst.topic && p.msg_id.is_some())
            .map(|p| (p, &m.calls[&p.call]))
            .filter(|(_, pc)| pc.returned_ok() && pc.inv_seq > inst.established_seq && !topic_deletes.iter().any(|d| d.inv_seq < pc.ret_seq_or_max() && d.effect_end_seq() > pc.inv_seq))
            .collect();
        if candidates.is_empty() {
            continue;
        }
        for st in m.stats.iter().filter(|s| s.sub == sub && s.found && s.seq < limit && s.seq < first_effective_delete) {
            let b = match m.barriers.iter().rev().find(|b| b.seq < st.seq) {
                Some(b) if b.quiescent => b,
                _ => continue,
            };
            // no phase boundary between the barrier and the snapshot
            if m.barriers.iter().any(|x| x.seq > b.seq && x.seq < st.seq) {
                continue;
            }
            let floor = match dels.iter().filter(|d| d.inv_seq < st.seq).map(|d| d.inv_seq).max() {
                None => 0,
                Some(last) => match m.barriers.iter().find(|x| x.seq > last && x.quiescent) {
                    Some(q) if q.seq < st.seq => q.seq,
                    _ => continue,
                },
            };
            let undelivered: Vec<&str> = candidates
                .iter()
                .filter(|(_, pc)| pc.ret_seq_or_max() < b.seq && pc.inv_seq > floor)
                .filter(|(p, _)| {
                    let id = p.msg_id.as_ref().unwrap();
                    !m.deliveries_by_key.get(&(sub.clone(), id.clone())).map(|l| l.iter().any(|&i| m.deliveries[i].recv_seq < st.seq)).unwrap_or(false)
                })
                .map(|(p, _)| p.msg_id.as_deref().unwrap())
                .collect();
            if undelivered.len() as u64 > st.backlog {
                out.push(v(
                    "C01.conservation",
                    "vanished_at_audit",
                    format!("{}: {} message(s) published after it was established were never delivered on it (e.g. {}), yet its backlog at the quiescent audit (seq {}) holds only {}", sub, undelivered.len(), undelivered[0], st.seq, st.backlog),
                ));
                break;
            }
        }
    }
}

/// C12: deleting a subscription releases its consumers.
fn rule_c12(ctx: &Ctx, out: &mut Vec<Violation>) {
    let m = ctx.m;
    for (sub, dels) in m.sub_deletes.iter() {
        if m.unique_sub(sub).is_none() {
            continue;
        }
        for dc in dels {
            let del = &m.calls[dc];
            // When did the deletion certainly take effect? When the call returned OK; for a call
            // that was abandoned, when a later snapshot shows that the subscription is gone.
            let dinv = del.inv_seq;
            let dret = if del.returned_ok() {
                del.ret_seq.unwrap()
            } else if matches!(del.out, Some(Outcome::Abandoned(_))) {
                match m.stats.iter().find(|st| st.sub == *sub && st.seq > dinv && !st.found) {
                    Some(st) => st.seq,
                    None => continue,
                }
            } else {
                continue;
            };
            let barrier = match m.barrier_after(dret) {
                Some(b) => b,
                None => continue,
            };
            for st in m.streams.values().filter(|s| &s.sub == sub) {
                let started_ok = matches!(st.started, Some((ss, _, OK)) if ss < dinv);
                if !started_ok {
                    continue;
                }
                // a client that is not reading its responses is told when it reads again
                if st.stalls.iter().any(|(on, off)| *on <= barrier.seq && off.map(|o| o >= dinv).unwrap_or(true)) {
                    continue;
                }
                let side = if st.close_req.map(|(s, _)| s < dinv).unwrap_or(false) { "request side closed" } else { "request side open" };
                match &st.end {
                    Some((es, _, _)) if *es < dinv => continue, // ended before the delete
                    // dropped by its client before the barrier (a stream that was still open at the
                    // barrier and was dropped later, e.g. by the final drain, was not released)
                    Some((es, _, StreamEnd::Dropped)) if *es < barrier.seq => continue,
                    Some((es, _, StreamEnd::Status(NOT_FOUND, _))) if *es < barrier.seq => {}
                    // a control message of this stream was on its way when the subscription went:
                    // that request raced the deletion and may fail with another error status, which
                    // is then the status the stream ends with
                    Some((es, _, StreamEnd::Status(code, _))) if *es < barrier.seq && *code != OK && st.sends.iter().any(|x| x.0 < *es && m.barriers.iter().rev().find(|b| b.seq < dinv && b.quiescent).map(|b| x.0 > b.seq).unwrap_or(true)) => {}
                    Some((es, _, end)) if *es < barrier.seq => {
                        out.push(v("C12.stream_status", format!("stream ended {:?}", std::mem::discriminant(end)), format!("StreamingPull #{} on {} ({}) ended with {:?} instead of NOT_FOUND after DeleteSubscription", st.slot, sub, side, end)));
                    }
                    _ => {
                        out.push(v("C12.stream_hang", format!("stream hang {side}"), format!("StreamingPull #{} on {} ({}) still open at the barrier after DeleteSubscription returned (seq {})", st.slot, sub, side, dret)));
                    }
                }
            }
            for c in m.calls.values() {
                if let Req::Pull { sub: s, immediate: false, bg_slot, .. } = &c.req {
                    if s != sub || c.inv_seq > dinv || c.ret_seq_or_max() < dinv {
                        continue;
                    }
                    if let Some(slot) = bg_slot {
                        if m.cancel_bg.get(slot).map(|cs| *cs < barrier.seq).unwrap_or(false) {
                            continue;
                        }
                    }
                    if matches!(c.out, Some(Outcome::Abandoned(_))) {
                        continue;
                    }
                    if c.ret_seq_or_max() > barrier.seq {
                        out.push(v("C12.pull_hang", "pull hang", format!("blocking Pull #{} on {} still waiting at the barrier after DeleteSubscription returned", c.id, sub)));
                    } else if let Some(Outcome::Ok(Resp::Pulled(r))) = &c.out {
                        if r.is_empty() {
                            out.push(v("C12.pull_status", "pull ok-empty", format!("blocking Pull #{} on {} answered OK-and-empty when the subscription was deleted", c.id, sub)));
                        }
                    }
                }
            }
        }
    }
}

/// C12.race: requests that race with a deletion never hang. Reported for every call on a
/// subscription (the delete itself included) that never returned and overlapped a
/// DeleteSubscription of that subscription.
fn rule_c12_race(ctx: &Ctx, out: &mut Vec<Violation>) {
    let m = ctx.m;
    for (sub, dels) in m.sub_deletes.iter() {
        for dc in dels {
            let del = &m.calls[dc];
            let mut hung: Vec<&Call> = Vec::new();
            for c in m.calls.values() {
                if !matches!(c.out, Some(Outcome::Hang)) {
                    continue;
                }
                let on_sub = sub_of(c) == sub.as_str();
                // a Publish to the subscription's topic is part of the same wait-for cycle
                let on_topic = match (&c.req, m.sub_creates.get(sub).and_then(|cs| cs.first()).map(|cc| &m.calls[cc].req)) {
                    (Req::Publish { topic, .. }, Some(Req::CreateSub { topic: t2, .. })) => topic == t2,
                    _ => false,
                };
                if (on_sub || on_topic) && c.inv_seq < del.ret_seq_or_max() && del.inv_seq < c.ret_seq_or_max() {
                    hung.push(c);
                }
            }
            if !hung.is_empty() {
                let kinds: BTreeSet<&str> = hung.iter().map(|c| req_kind(&c.req)).collect();
                // how many requests were in flight on that subscription when the delete was invoked
                let concurrent = m.calls.values().filter(|c| sub_of(c) == sub.as_str() && c.inv_seq <= del.inv_seq && c.ret_seq_or_max() > del.inv_seq).count();
                let load = if concurrent >= 16 { "mailbox_saturated" } else { "few_requests" };
                out.push(v(
                    "C12.race_hang",
                    format!("race_hang:{}:{}", load, kinds.iter().cloned().collect::<Vec<_>>().join("+")),
                    format!("{} request(s) racing DeleteSubscription({}) never returned: {}", hung.len(), sub, hung.iter().take(5).map(|c| format!("#{} {}", c.id, req_kind(&c.req))).collect::<Vec<_>>().join(", ")),
                ));
            }
        }
    }
}

/// Sequential lease model (plans tagged "sequential"): one client, no background consumers.
/// Every immediate Pull with room to spare is a probe: each message must / must not / may be in it.
fn rule_seq(ctx: &Ctx, out: &mut Vec<Violation>) {
    let m = ctx.m;
    if !ctx.plan.has_tag("sequential") {
        return;
    }
    let mut subs: BTreeSet<String> = BTreeSet::new();
    for n in m.sub_creates.keys() {
        subs.insert(n.clone());
    }
    for sub in subs {
        let inst = match m.unique_sub(&sub) {
            Some(i) => i,
            None => continue,
        };
        if m.sub_delete_ever(&sub) || inst.push.is_some() || m.unique_topic(&inst.topic).is_none() {
            continue;
        }
        // (a topic deleted later does not matter: the subscription keeps what it already holds)
        let create = &m.calls[&inst.create_call];
        // messages this subscription must hold
        let msgs: Vec<&Published> = m
            .published
            .iter()
            .filter(|p| p.topic == inst.topic && p.msg_id.is_some() && m.calls[&p.call].returned_ok() && inst.established_seq < m.calls[&p.call].inv_seq)
            .collect();
        let probes: Vec<&Call> = m
            .calls
            .values()
            .filter(|c| matches!(&c.req, Req::Pull { sub: s, .. } if *s == sub) && c.returned_ok() && m.health_start.map(|h| c.inv_seq < h.0).unwrap_or(true))
            .collect();
        for probe in probes {
            let (max, immediate) = match &probe.req {
                Req::Pull { max, immediate, .. } => (*max, *immediate),
                _ => continue,
            };
            let got: Vec<&Recv> = match &probe.out {
                Some(Outcome::Ok(Resp::Pulled(r))) => r.iter().collect(),
                _ => continue,
            };
            let got_ids: HashSet<&str> = got.iter().map(|r| r.msg_id.as_str()).collect();
            let effective_max = if max >= 1 { (max as usize).min(1000) } else { 1 };
            let has_room = got.len() < effective_max && max >= 1 && max <= 65535;
            let (pinv_t, pret_t) = (probe.inv_t, probe.ret_t.unwrap());
            for p in msgs.iter() {
                let id = p.msg_id.as_ref().unwrap();
                let pc = &m.calls[&p.call];
                if pc.ret_seq_or_max() > probe.inv_seq {
                    continue; // published after (or overlapping) this probe
                }
                let present = got_ids.contains(id.as_str());
                // latest delivery before this probe
                let prior: Option<&Delivery> = m
                    .deliveries_by_key
                    .get(&(sub.clone(), id.clone()))
                    .and_then(|l| l.iter().map(|&i| &m.deliveries[i]).filter(|d| d.recv_seq < probe.inv_seq).last());
                match prior {
                    None => {
                        if !present && has_room && immediate {
                            out.push(v("C01.lost", "seq_fresh_missing", format!("{}: message {} was published (returned seq {}) and never delivered, but an immediate Pull with room (call {}, {} of max {}) did not return it", sub, id, pc.ret_seq_or_max(), probe.id, got.len(), max)));
                        }
                    }
                    Some(d) => {
                        let lease = ctx.lease_at(d, inst.deadline_us(), probe.inv_seq, probe.ret_seq.unwrap());
                        let fam = if lease.modified { "C05" } else { "C04" };
                        if let Some((aseq, at)) = lease.acked_at {
                            if present && aseq < probe.inv_seq {
                                out.push(v("C02.resurrect", "seq_resurrect", format!("{}: message {} acknowledged at {}us (ack id {}) is in Pull call {} at {}us", sub, id, at, d.recv.ack_id, probe.id, pinv_t)));
                            }
                            continue;
                        }
                        if lease.maybe_acked {
                            continue;
                        }
                        if present && pret_t < lease.lo {
                            let rule = if lease.modified { "C05.early" } else { "C04.early" };
                            also_rejected(out, &lease, &format!("{}: message {} redelivered before its lease could have ended", sub, id));
                            out.push(v(rule, "seq_early", format!("{}: message {} (ack id {}, handed out in [{},{}]us, lease certainly until {}us) redelivered by Pull call {} that returned at {}us", sub, id, d.recv.ack_id, d.lo_t, d.recv_t, lease.lo, probe.id, pret_t)));
                        }
                        if !present && has_room && immediate && pinv_t >= lease.hi {
                            let rule = if lease.nacked { "C05.nack".to_string() } else { format!("{fam}.late") };
                            also_rejected(out, &lease, &format!("{}: message {} is not redelivered after its lease ended", sub, id));
                            out.push(v(&rule, "seq_late", format!("{}: message {} (ack id {}, lease certainly over at {}us) missing from immediate Pull call {} invoked at {}us with room ({} of max {})", sub, id, d.recv.ack_id, lease.hi, probe.id, pinv_t, got.len(), max)));
                        }
                    }
                }
            }
        }
    }
}
