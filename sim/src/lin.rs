//! Per-name linearizability (C10) against a sequential map model, WGL-style search with
//! memoisation on (linearised set, state). Also answers "what is the state of this name at
//! sequence number s" for the listing / consistency oracles.
use crate::log::*;
use crate::model::*;
use crate::oracle::Ctx;
use crate::plan::ListKind;
use std::collections::{BTreeSet, HashSet};

#[derive(Clone, Debug, PartialEq)]
pub enum NameState {
    Absent,
    /// Present; the value is the id of the create call that made the instance.
    Present(u32),
    Unknown,
}

pub struct Problem {
    pub key: String,
    pub detail: String,
}

#[derive(Clone, Debug, PartialEq)]
enum Kind {
    Create,
    Delete,
    Read,
}

#[derive(Clone, Debug, PartialEq)]
enum Res {
    /// Create/Delete/Read succeeded. For reads: optionally the create call whose value was echoed.
    Ok(Option<u32>),
    AlreadyExists,
    NotFound,
}

#[derive(Clone, Debug)]
struct LOp {
    call: u32,
    inv: u64,
    /// u64::MAX when the outcome is unknown (abandoned / hung): effect optional, result unchecked.
    ret: u64,
    kind: Kind,
    res: Option<Res>,
    what: &'static str,
}

fn sub_value_of(ctx: &Ctx, name: &str, deadline: i32) -> Option<u32> {
    // the create call of `name` with this effective deadline, if unique
    let creates = ctx.m.sub_creates.get(name)?;
    let matching: Vec<u32> = creates
        .iter()
        .filter(|c| matches!(&ctx.m.calls[c].req, Req::CreateSub { ack_deadline, .. } if (*ack_deadline).max(10) == deadline))
        .cloned()
        .collect();
    if matching.len() == 1 {
        Some(matching[0])
    } else {
        None
    }
}

fn ops_for(ctx: &Ctx, is_sub: bool, name: &str) -> Vec<LOp> {
    let m = ctx.m;
    let mut ops = Vec::new();
    for c in m.calls.values() {
        if m.health_start.map(|h| c.inv_seq > h.0).unwrap_or(false) {
            // the health probe runs after everything else; keep it (it is part of the history)
        }
        // Outcome unknown: abandoned / hung calls, and mutations answered with a "conflict"
        // status (the resource was deleted under the request; its own effect may have happened).
        let conflict = matches!(c.out, Some(Outcome::Err(FAILED_PRECONDITION, _)) | Some(Outcome::Err(INTERNAL, _)));
        // ... for a *create*: it registers the name before it attaches, so a create that loses a
        // race is answered "conflict" although the name existed for a moment (and may still exist).
        // A *delete* that is answered "conflict" found the resource already being deleted by someone
        // else, or gone: it deleted nothing itself - a delete that reports failure and deletes anyway
        // is not "a delete that has returned" in any sense a client can use.
        let mutation = matches!(c.req, Req::CreateSub { .. } | Req::CreateTopic { .. });
        let failed_delete = conflict && matches!(c.req, Req::DeleteSub { .. } | Req::DeleteTopic { .. });
        if failed_delete {
            continue;
        }
        let pending = !matches!(c.out, Some(Outcome::Ok(_)) | Some(Outcome::Err(_, _))) || (conflict && mutation);
        let code = c.code();
        let ret = if pending { u64::MAX } else { c.ret_seq.unwrap() };
        let mut push = |kind: Kind, res: Option<Res>, what: &'static str| {
            ops.push(LOp { call: c.id, inv: c.inv_seq, ret, kind, res, what });
        };
        let read_res = |code: Option<Code>| -> Option<Option<Res>> {
            // Some(None) = pending read (useless, skip); None = unconstrained (drop)
            match code {
                Some(OK) => Some(Some(Res::Ok(None))),
                Some(NOT_FOUND) => Some(Some(Res::NotFound)),
                _ => None,
            }
        };
        if is_sub {
            match &c.req {
                Req::CreateSub { sub, .. } if sub == name => {
                    if pending {
                        push(Kind::Create, None, "CreateSubscription");
                    } else {
                        match code {
                            Some(OK) => push(Kind::Create, Some(Res::Ok(None)), "CreateSubscription"),
                            Some(ALREADY_EXISTS) => push(Kind::Create, Some(Res::AlreadyExists), "CreateSubscription"),
                            _ => {} // rejected before the name was looked at
                        }
                    }
                }
                Req::DeleteSub { sub } if sub == name => {
                    if pending {
                        push(Kind::Delete, None, "DeleteSubscription");
                    } else {
                        match code {
                            Some(OK) => push(Kind::Delete, Some(Res::Ok(None)), "DeleteSubscription"),
                            Some(NOT_FOUND) => push(Kind::Delete, Some(Res::NotFound), "DeleteSubscription"),
                            _ => {}
                        }
                    }
                }
                Req::GetSub { sub } if sub == name && !pending => match &c.out {
                    Some(Outcome::Ok(Resp::Sub(sv))) => push(Kind::Read, Some(Res::Ok(sub_value_of(ctx, name, sv.ack_deadline))), "GetSubscription"),
                    Some(Outcome::Err(NOT_FOUND, _)) => push(Kind::Read, Some(Res::NotFound), "GetSubscription"),
                    _ => {}
                },
                Req::Pull { sub, .. } if sub == name && !pending => {
                    if let Some(Some(r)) = read_res(code) {
                        push(Kind::Read, Some(r), "Pull");
                    }
                }
                Req::Ack { sub, .. } if sub == name && !pending => {
                    if let Some(Some(r)) = read_res(code) {
                        push(Kind::Read, Some(r), "Acknowledge");
                    }
                }
                Req::ModAck { sub, .. } if sub == name && !pending => {
                    if let Some(Some(r)) = read_res(code) {
                        push(Kind::Read, Some(r), "ModifyAckDeadline");
                    }
                }
                Req::ListPage { kind: ListKind::Subs, parent, token, page_size } if !pending && token.is_empty() => {
                    if let Some(Outcome::Ok(Resp::Subs(list, next))) = &c.out {
                        if next.is_empty() || (list.len() as i64) < (*page_size).clamp(1, 1000) as i64 {
                            let project = parent.strip_prefix("projects/").unwrap_or("");
                            if name.strip_prefix("projects/").and_then(|r| r.split('/').next()) == Some(project) {
                                match list.iter().find(|sv| sv.name == name) {
                                    Some(sv) => push(Kind::Read, Some(Res::Ok(sub_value_of(ctx, name, sv.ack_deadline))), "ListSubscriptions"),
                                    None => push(Kind::Read, Some(Res::NotFound), "ListSubscriptions"),
                                }
                            }
                        }
                    }
                }
                _ => {}
            }
        } else {
            match &c.req {
                Req::CreateTopic { topic } if topic == name => {
                    if pending {
                        push(Kind::Create, None, "CreateTopic");
                    } else {
                        match code {
                            Some(OK) => push(Kind::Create, Some(Res::Ok(None)), "CreateTopic"),
                            Some(ALREADY_EXISTS) => push(Kind::Create, Some(Res::AlreadyExists), "CreateTopic"),
                            _ => {}
                        }
                    }
                }
                Req::DeleteTopic { topic } if topic == name => {
                    if pending {
                        push(Kind::Delete, None, "DeleteTopic");
                    } else {
                        match code {
                            Some(OK) => push(Kind::Delete, Some(Res::Ok(None)), "DeleteTopic"),
                            Some(NOT_FOUND) => push(Kind::Delete, Some(Res::NotFound), "DeleteTopic"),
                            _ => {}
                        }
                    }
                }
                Req::GetTopic { topic } if topic == name && !pending => {
                    if let Some(Some(r)) = read_res(code) {
                        push(Kind::Read, Some(r), "GetTopic");
                    }
                }
                Req::Publish { topic, .. } if topic == name && !pending => {
                    if let Some(Some(r)) = read_res(code) {
                        push(Kind::Read, Some(r), "Publish");
                    }
                }
                Req::Walk { kind: ListKind::TopicSubs, parent, .. } if parent == name && !pending => {
                    if let Some(Outcome::Ok(Resp::Walk(pages))) = &c.out {
                        // only single-request walks are one atomic read
                        if pages.len() == 1 {
                            match pages[0].code {
                                OK => push(Kind::Read, Some(Res::Ok(None)), "ListTopicSubscriptions"),
                                NOT_FOUND => push(Kind::Read, Some(Res::NotFound), "ListTopicSubscriptions"),
                                _ => {}
                            }
                        }
                    }
                }
                Req::CreateSub { topic, sub, .. } if topic == name && !pending => {
                    // The handler looks the topic up first: NOT_FOUND can only mean "topic absent";
                    // OK / ALREADY_EXISTS / project mismatch mean it was present.
                    let well_formed = !crate::oracle2::definitely_malformed_name(sub);
                    match code {
                        Some(NOT_FOUND) if well_formed => push(Kind::Read, Some(Res::NotFound), "CreateSubscription(topic lookup)"),
                        Some(OK) | Some(ALREADY_EXISTS) => push(Kind::Read, Some(Res::Ok(None)), "CreateSubscription(topic lookup)"),
                        _ => {}
                    }
                }
                Req::ListPage { kind: ListKind::Topics, parent, token, page_size } if !pending && token.is_empty() => {
                    if let Some(Outcome::Ok(Resp::Names(list, next))) = &c.out {
                        if next.is_empty() || (list.len() as i64) < (*page_size).clamp(1, 1000) as i64 {
                            let project = parent.strip_prefix("projects/").unwrap_or("");
                            if name.strip_prefix("projects/").and_then(|r| r.split('/').next()) == Some(project) {
                                if list.iter().any(|n| n == name) {
                                    push(Kind::Read, Some(Res::Ok(None)), "ListTopics");
                                } else {
                                    push(Kind::Read, Some(Res::NotFound), "ListTopics");
                                }
                            }
                        }
                    }
                }
                _ => {}
            }
        }
    }
    ops.sort_by_key(|o| o.inv);
    ops
}

/// Applies `op` to `state` (None = absent). Returns the new state if the recorded result is
/// the one the sequential model gives, `relaxed_delete` allowing "delete OK on an absent name".
fn apply(state: Option<u32>, op: &LOp, relaxed_delete: bool) -> Option<Option<u32>> {
    match (&op.kind, &op.res) {
        (Kind::Create, None) => Some(match state {
            None => Some(op.call),
            s => s,
        }),
        (Kind::Delete, None) => Some(None),
        (Kind::Read, None) => Some(state),
        (Kind::Create, Some(Res::Ok(_))) => {
            if state.is_none() {
                Some(Some(op.call))
            } else {
                None
            }
        }
        (Kind::Create, Some(Res::AlreadyExists)) => {
            if state.is_some() {
                Some(state)
            } else {
                None
            }
        }
        (Kind::Delete, Some(Res::Ok(_))) => {
            if state.is_some() || relaxed_delete {
                Some(None)
            } else {
                None
            }
        }
        (Kind::Delete, Some(Res::NotFound)) => {
            if state.is_none() {
                Some(None)
            } else {
                None
            }
        }
        (Kind::Read, Some(Res::Ok(val))) => match (state, val) {
            (None, _) => None,
            (Some(cur), Some(v)) => {
                if cur == *v {
                    Some(state)
                } else {
                    None
                }
            }
            (Some(_), None) => Some(state),
        },
        (Kind::Read, Some(Res::NotFound)) => {
            if state.is_none() {
                Some(state)
            } else {
                None
            }
        }
        _ => None,
    }
}

struct Search<'a> {
    ops: &'a [LOp],
    /// ops that must be linearised (completed); the others are optional
    required: u64,
    relaxed_delete: bool,
    memo: HashSet<(u64, Option<u32>)>,
    finals: BTreeSet<Option<u32>>,
    steps: u64,
    collect_all: bool,
}

impl<'a> Search<'a> {
    fn run(&mut self, done: u64, state: Option<u32>) -> bool {
        if done & self.required == self.required {
            self.finals.insert(state);
            if !self.collect_all {
                return true;
            }
            // optional ops may still be applied: continue exploring
        }
        if !self.memo.insert((done, state)) {
            return false;
        }
        self.steps += 1;
        if self.steps > 400_000 {
            return false;
        }
        // the earliest return among unlinearised required ops bounds what may go next
        let mut min_ret = u64::MAX;
        for (i, o) in self.ops.iter().enumerate() {
            if done & (1 << i) == 0 && self.required & (1 << i) != 0 {
                min_ret = min_ret.min(o.ret);
            }
        }
        let mut found = false;
        for (i, o) in self.ops.iter().enumerate() {
            if done & (1 << i) != 0 || o.inv > min_ret {
                continue;
            }
            let unchecked = self.required & (1 << i) == 0;
            let as_pending;
            let op_ref = if unchecked && o.res.is_some() {
                // an operation still in flight at the cut: its effect is optional, its result not yet known
                as_pending = LOp { res: None, ..o.clone() };
                &as_pending
            } else {
                o
            };
            if let Some(next) = apply(state, op_ref, self.relaxed_delete) {
                if self.run(done | (1 << i), next) {
                    found = true;
                    if !self.collect_all {
                        return true;
                    }
                }
            }
        }
        found
    }
}

fn describe(ops: &[LOp]) -> String {
    ops.iter()
        .map(|o| format!("#{} {} [{}..{}] -> {:?}", o.call, o.what, o.inv, if o.ret == u64::MAX { "pending".to_string() } else { o.ret.to_string() }, o.res))
        .collect::<Vec<_>>()
        .join("; ")
}

pub fn check_name(ctx: &Ctx, is_sub: bool, name: &str) -> Option<Problem> {
    let ops = ops_for(ctx, is_sub, name);
    if ops.is_empty() || ops.len() > 60 {
        return None;
    }
    let required: u64 = ops.iter().enumerate().filter(|(_, o)| o.ret != u64::MAX).map(|(i, _)| 1u64 << i).sum();
    let mut s = Search { ops: &ops, required, relaxed_delete: false, memo: HashSet::new(), finals: BTreeSet::new(), steps: 0, collect_all: false };
    if s.run(0, None) {
        return None;
    }
    if s.steps > 400_000 {
        return None; // search budget exhausted: no verdict
    }
    let mut relaxed = Search { ops: &ops, required, relaxed_delete: true, memo: HashSet::new(), finals: BTreeSet::new(), steps: 0, collect_all: false };
    let key = if relaxed.run(0, None) { "overlapping_deletes_both_ok" } else { "not_linearizable" };
    Some(Problem { key: key.to_string(), detail: format!("history has no linearization against the map model: {}", describe(&ops)) })
}

/// The state of `name` as seen by an observer at sequence number `seq`: operations that returned
/// before `seq` are in, operations invoked before and not yet returned may or may not be.
pub fn state_at(ctx: &Ctx, is_sub: bool, name: &str, seq: u64) -> NameState {
    let all = ops_for(ctx, is_sub, name);
    let ops: Vec<LOp> = all.into_iter().filter(|o| o.inv < seq && !matches!(o.kind, Kind::Read)).collect();
    if ops.is_empty() {
        return NameState::Absent;
    }
    if ops.len() > 60 {
        return NameState::Unknown;
    }
    let required: u64 = ops.iter().enumerate().filter(|(_, o)| o.ret < seq).map(|(i, _)| 1u64 << i).sum();
    let mut s = Search { ops: &ops, required, relaxed_delete: false, memo: HashSet::new(), finals: BTreeSet::new(), steps: 0, collect_all: true };
    s.run(0, None);
    if s.steps > 400_000 || s.finals.len() != 1 {
        return NameState::Unknown;
    }
    match s.finals.iter().next().unwrap() {
        None => NameState::Absent,
        Some(c) => NameState::Present(*c),
    }
}
