//! Linearizability checking for per-name histories (C10). Filled in by oracle2.
