//! Per-property check definitions: which families generate its runs, which oracle rules it
//! reports, and what makes a run non-trivial for it.
use crate::gen::*;
use crate::oracle::Facts;
use crate::plan::{Op, Plan};
use crate::rng::mix2;

pub struct CheckDef {
    pub id: &'static str,
    pub level: &'static str,
    /// Rule-name prefixes this check reports ("C01." matches C01.lost ...).
    pub rules: &'static [&'static str],
    pub quick_runs: u64,
    pub thorough_runs: u64,
    pub nontrivial_rule: &'static str,
}

pub const CHECKS: &[CheckDef] = &[
    CheckDef { id: "C01", level: "exploration", rules: &["C01.", "C14.retry", "CRASH."], quick_runs: 6000, thorough_runs: 200_000, nontrivial_rule: ">=2 subscriptions on one topic, >=1 pair of overlapping Publish calls on a topic, >=1 redelivery" },
    CheckDef { id: "C02", level: "exploration", rules: &["C02.", "C01.lost", "C01.redelivery", "C01.conservation", "CRASH."], quick_runs: 6000, thorough_runs: 200_000, nontrivial_rule: ">=1 acknowledgement that returned OK, followed by a clock advance, with >=1 other message on the subscription" },
    CheckDef { id: "C03", level: "exploration", rules: &["C03.", "C05.reject", "CRASH."], quick_runs: 6000, thorough_runs: 200_000, nontrivial_rule: ">=2 consumers had overlapping requests on one subscription, or >=1 redelivery was observed" },
    CheckDef { id: "C04", level: "exploration", rules: &["C04.", "C03.ackid", "C03.double", "C06.quiescent", "CRASH."], quick_runs: 8000, thorough_runs: 300_000, nontrivial_rule: "sequential lease run with >=1 redelivery after expiry (a probe on the late side saw the message again)" },
    CheckDef { id: "C05", level: "exploration", rules: &["C05.", "C03.double", "CRASH."], quick_runs: 8000, thorough_runs: 300_000, nontrivial_rule: "sequential lease run with >=1 ModifyAckDeadline naming an outstanding delivery" },
    CheckDef { id: "C06", level: "exploration", rules: &["C06.", "C04.late", "C05.late", "CRASH."], quick_runs: 6000, thorough_runs: 200_000, nontrivial_rule: ">=1 parked blocking Pull or stream received messages that became available while it was parked" },
    CheckDef { id: "C07", level: "exploration", rules: &["C07.", "CRASH."], quick_runs: 5000, thorough_runs: 100_000, nontrivial_rule: "a mailbox was full when a request or a fan-out post was sent (probe mailbox_full_at_send / post_blocked_on_full_mailbox)" },
    CheckDef { id: "C08", level: "exploration", rules: &["C08.", "CRASH."], quick_runs: 6000, thorough_runs: 200_000, nontrivial_rule: ">=1 pair of overlapping Publish calls on one topic and >=2 subscriptions on a topic" },
    CheckDef { id: "C09", level: "exploration", rules: &["C09.", "CRASH."], quick_runs: 5000, thorough_runs: 150_000, nontrivial_rule: ">=1 redelivery and >=1 delivery by each of >=2 delivery paths" },
    CheckDef { id: "C10", level: "exploration", rules: &["C10.", "CRASH."], quick_runs: 6000, thorough_runs: 200_000, nontrivial_rule: ">=2 operations on one name overlapped and at least one of them was a create or a delete" },
    CheckDef { id: "C11", level: "exploration", rules: &["C11.", "C01.conservation", "C01.lost", "C01.redelivery", "C14.retry", "CRASH."], quick_runs: 6000, thorough_runs: 200_000, nontrivial_rule: ">=1 DeleteSubscription or DeleteTopic returned OK and a later audit listed a topic's subscriptions" },
    CheckDef { id: "C12", level: "exploration", rules: &["C12.", "C10.conflict", "C01.conservation", "CRASH."], quick_runs: 5000, thorough_runs: 150_000, nontrivial_rule: "a DeleteSubscription returned OK while >=1 stream or blocking Pull was waiting on the subscription" },
    CheckDef { id: "C13", level: "exploration", rules: &["C13.", "C11.consistent", "C10.residue", "CRASH."], quick_runs: 4000, thorough_runs: 100_000, nontrivial_rule: ">=1 walk of >=2 pages over a listing that had deletions before it, or a forged decodable token" },
    CheckDef { id: "C14", level: "exploration", rules: &["C14.", "C09.fields", "C03.double", "CRASH."], quick_runs: 5000, thorough_runs: 150_000, nontrivial_rule: ">=1 POST was answered with a non-accepting behaviour and the same message was POSTed again" },
    CheckDef { id: "C15", level: "exploration", rules: &["C15.", "C06.quiescent", "CRASH."], quick_runs: 5000, thorough_runs: 150_000, nontrivial_rule: ">=1 Pull whose max_messages was smaller than the number of available messages, or a parked Pull that was woken" },
    CheckDef { id: "C16", level: "fault_enumeration", rules: &["C16.", "C01.lost", "C01.redelivery", "C06.quiescent", "C07.", "C12.stream_hang", "C12.pull_hang", "C14.retry", "CRASH."], quick_runs: 5000, thorough_runs: 150_000, nontrivial_rule: "the target request was actually dropped at its k-th real suspension (outcome Abandoned); distinct = distinct (request kind, k, mailbox state, schedule fingerprint)" },
    CheckDef { id: "C17", level: "exploration", rules: &["C17.", "C01.", "C02.", "C03.", "C07.", "C14.retry", "C14.nonpush", "CRASH."], quick_runs: 5000, thorough_runs: 150_000, nontrivial_rule: ">=3 malformed requests were rejected with INVALID_ARGUMENT while valid traffic ran alongside" },
];

pub fn find(id: &str) -> Option<&'static CheckDef> {
    CHECKS.iter().find(|c| c.id == id)
}

pub fn rule_claimed(def: &CheckDef, rule: &str) -> bool {
    def.rules.iter().any(|p| rule.starts_with(p))
}

/// seed -> Plan for the given check. The family is drawn from the seed (swarm style).
pub fn generate(id: &str, run_seed: u64, thorough: bool) -> Plan {
    let mut plan = generate_family(id, run_seed, thorough);
    retry_abandoned(&mut plan, run_seed);
    repeat_ids(&mut plan, run_seed);
    // A tenth of the runs: the client announces a call deadline beyond the server-side wait limit.
    if mix2(run_seed ^ 0xDEAD11E, 1) % 100 < 10 {
        plan.knobs.call_deadline_s = [360u64, 1_200, 3_600, 86_400, 35_999_999_640][(mix2(run_seed ^ 0xDEAD11E, 2) % 5) as usize];
    }
    plan
}

/// A share of the acknowledgements, deadline modifications and control frames name their ack IDs
/// twice or three times in one request (a client library batching an application nack with its own
/// shutdown nack): legal, and it must behave like naming them once.
fn repeat_ids(plan: &mut Plan, run_seed: u64) {
    let mut n = 0u64;
    for phase in plan.phases.iter_mut() {
        for script in phase.scripts.iter_mut() {
            for st in script.iter_mut() {
                n += 1;
                if mix2(run_seed ^ 0x7E9EA7, n) % 100 >= 8 {
                    continue;
                }
                let times = 1 + (mix2(run_seed ^ 0x7E9EA8, n) % 2) as u32;
                match &mut st.op {
                    Op::Ack { sel, .. } | Op::ModAck { sel, .. } if sel.filler == 0 && sel.bad_at.is_none() && sel.pick != crate::plan::Pick::None => sel.repeat = times,
                    Op::StreamSend { ack, modack, .. } => {
                        if modack.pick != crate::plan::Pick::None && modack.bad_at.is_none() {
                            modack.repeat = times;
                        } else if ack.pick != crate::plan::Pick::None && ack.bad_at.is_none() {
                            ack.repeat = times;
                        }
                    }
                    _ => {}
                }
            }
        }
    }
}

/// Client retries (request duplication): a request whose client went away is, in a share of the
/// runs, issued again by the same client right afterwards (what a gRPC retry policy does). The
/// sequential "lease" plans are left alone (their generator tracks virtual time exactly).
fn retry_abandoned(plan: &mut Plan, run_seed: u64) {
    if plan.has_tag("sequential") || mix2(run_seed, 0x2E72) % 100 >= 35 {
        return;
    }
    let mut n = 0u64;
    for phase in plan.phases.iter_mut() {
        for script in phase.scripts.iter_mut() {
            let mut i = 0;
            while i < script.len() {
                let st = &script[i];
                let abandoned = st.abandon_at > 0 || st.abandon_after_us > 0;
                let retryable = matches!(st.op, Op::CreateTopic { .. } | Op::DeleteTopic { .. } | Op::CreateSub { .. } | Op::DeleteSub { .. } | Op::Publish { .. } | Op::Ack { .. } | Op::ModAck { .. } | Op::GetSub { .. } | Op::GetTopic { .. });
                n += 1;
                if abandoned && retryable && mix2(run_seed ^ 0xD0_0B1E, n) % 100 < 50 {
                    let mut again = st.clone();
                    again.abandon_at = 0;
                    again.abandon_after_us = 0;
                    again.delay_us = mix2(run_seed ^ 0x0DE1A7, n) % 3 * (mix2(run_seed, n) % 2_000);
                    script.insert(i + 1, again);
                    i += 1;
                }
                i += 1;
            }
        }
    }
}

fn generate_family(id: &str, run_seed: u64, _thorough: bool) -> Plan {
    let pick = mix2(run_seed, 0xF00D) % 100;
    // thorough tier: a quarter of the general-family runs are wide
    let scale = if _thorough && mix2(run_seed, 0x5CA1E) % 4 == 0 { 2 } else { 1 };
    let full = GeneralOpts { scale, rich_payloads: false, consumer_faults: true, publisher_faults: true, deletes: true, push: false, stalls: true, big_batches: true, single_drain_consumer_share: 10 };
    match id {
        "C01" => {
            if pick < 55 {
                f_general(run_seed, &full)
            } else if pick < 65 {
                f_general(run_seed, &GeneralOpts { push: true, ..full })
            } else if pick < 69 {
                f_lease(run_seed, &LeaseOpts { modacks: true, limits: true })
            } else if pick < 71 {
                // publishes inside a burst that fills the subscription's mailbox: every one of them arrives
                f_burst_order(run_seed)
            } else if pick < 76 {
                // a request that reaches the subscription the instant a lease ends: the message is still redelivered
                f_edge(run_seed)
            } else if pick < 80 {
                // push subscriptions with failing / slow / silent endpoints, deleted and re-created
                f_push(run_seed, false)
            } else if pick < 84 {
                // racing creates / deletes of a few names, with publishes and a final drain
                f_names(run_seed, 1 + pick % 3, false)
            } else if pick < 88 {
                // a DeleteSubscription whose client goes away half-way: if the subscription still
                // exists afterwards it still receives what is published
                f_delete(run_seed, false)
            } else if pick < 94 {
                f_dupcreate(run_seed)
            } else {
                // backlogs and pull limits above 1000
                f_limits(run_seed, false)
            }
        }
        "C02" => {
            if pick < 37 {
                f_lease(run_seed, &LeaseOpts { modacks: pick < 25, limits: false })
            } else if pick < 42 {
                // acknowledgements inside StreamingPull control messages (mixed frames)
                f_lease_stream(run_seed)
            } else if pick < 50 {
                // an acknowledgement that arrives the instant a lease runs out, or shortly before it
                // while the subscription actor is held up
                f_edge(run_seed)
            } else if pick < 56 {
                // acknowledgements naming more than 1000 deliveries at once
                f_limits(run_seed, false)
            } else if pick < 59 {
                f_bigbatch(run_seed)
            } else {
                f_general(run_seed, &GeneralOpts { deletes: false, ..full })
            }
        }
        "C03" => {
            if pick < 36 {
                f_consumers(run_seed, true)
            } else if pick < 42 {
                f_lease_stream(run_seed)
            } else if pick < 45 {
                // a slow StreamingPull client next to waiting consumers
                f_stalled(run_seed)
            } else if pick < 50 {
                // push deliveries whose endpoint answers slowly or never: not POSTed again inside the lease
                f_push(run_seed, false)
            } else if pick < 56 {
                // pages of several MiB / several thousand messages
                f_bigbatch(run_seed)
            } else if pick < 90 {
                f_general(run_seed, &GeneralOpts { deletes: false, push: pick >= 75, ..full })
            } else {
                f_lease(run_seed, &LeaseOpts { modacks: true, limits: true })
            }
        }
        "C04" => {
            if pick < 30 {
                f_lease_parked(run_seed)
            } else if pick < 36 {
                // requests arriving the instant a lease runs out, with a consumer waiting
                f_edge(run_seed)
            } else if pick < 44 {
                // push deliveries: the lease of a POST that the endpoint answers slowly or never
                f_push(run_seed, false)
            } else if pick < 52 {
                // consumers that go away while their pull is being answered: what they were handed is
                // redelivered at its deadline, once, and not before
                f_consumers(run_seed, true)
            } else if pick < 60 {
                // several leases with different deadlines, one of them moved, then only a parked consumer
                f_timer(run_seed)
            } else {
                f_lease(run_seed, &LeaseOpts { modacks: false, limits: pick < 50 })
            }
        }
        "C05" => {
            if pick < 22 {
                f_lease_stream(run_seed)
            } else if pick < 26 {
                f_edge(run_seed)
            } else if pick < 32 {
                f_timer(run_seed)
            } else if pick < 36 {
                // a ModifyAckDeadline for a live delivery in the middle of a burst on the subscription
                f_burst_edge(run_seed)
            } else {
                f_lease(run_seed, &LeaseOpts { modacks: true, limits: false })
            }
        }
        "C06" => {
            if pick < 65 {
                f_consumers(run_seed, pick < 35)
            } else if pick < 77 {
                // a slow StreamingPull client (full response window) next to waiting consumers
                f_stalled(run_seed)
            } else if pick < 83 {
                // a request that is handled in the same actor wake-up as a lease expiry
                f_edge(run_seed)
            } else if pick < 88 {
                // leases with different / moved deadlines and nothing but a parked consumer: it is
                // woken at every expiry
                f_timer(run_seed)
            } else {
                f_consumers_saturated(run_seed)
            }
        }
        "C07" => {
            if pick < 50 {
                f_delete(run_seed, true)
            } else if pick < 65 {
                f_delete(run_seed, false)
            } else if pick < 80 {
                f_general(run_seed, &GeneralOpts { stalls: false, ..full })
            } else if pick < 86 {
                // every lock path incl. the push loop and push subscriptions (lock-order rule)
                f_general(run_seed, &GeneralOpts { stalls: false, push: true, ..full })
            } else if pick < 90 {
                f_push(run_seed, false)
            } else if pick < 93 {
                // a lease that runs out while the subscription's mailbox is full
                f_burst_edge(run_seed)
            } else if pick < 96 {
                // creates racing deletes of the same names (wait-for cycles that need no full mailbox)
                f_names(run_seed, 3, false)
            } else if pick < 97 {
                f_dupcreate(run_seed)
            } else {
                // many Pulls parked on one real HTTP/2 connection to the real transport server, then
                // other requests on the same connection
                f_conn(run_seed)
            }
        }
        "C08" => {
            if pick < 6 {
                f_bigbatch(run_seed)
            } else if pick >= 96 {
                // publishes that fail half-way through the fan-out next to a healthy subscription: the
                // IDs the healthy one sees still increase
                f_zombie(run_seed)
            } else if pick >= 90 {
                // publishes inside a burst that fills the subscription mailbox
                f_burst_order(run_seed)
            } else if pick < 12 {
                // IDs issued around a DeleteTopic
                f_topicdelete(run_seed)
            } else if pick < 20 {
                // push delivery order, with failing endpoints and publishes during a round
                f_push(run_seed, false)
            } else if pick < 30 {
                f_general(run_seed, &GeneralOpts { consumer_faults: false, publisher_faults: false, deletes: false, push: true, single_drain_consumer_share: 0, ..full })
            } else {
                // (a share with deletions: IDs issued around a DeleteTopic)
                f_general(run_seed, &GeneralOpts { consumer_faults: false, publisher_faults: false, deletes: pick < 50, single_drain_consumer_share: 30, ..full })
            }
        }
        "C09" => {
            if pick >= 97 {
                // many topics created in the server's lifetime: IDs unique across topics
                f_manytopics(run_seed)
            } else if pick >= 94 {
                f_topicdelete(run_seed)
            } else if pick >= 86 {
                // publishes that fail half-way (a subscription deleted under a racing create stays
                // attached): IDs and payloads seen by the healthy subscriptions next to it
                f_zombie(run_seed)
            } else if pick >= 80 {
                // push subscriptions with push-config attributes, OIDC settings, failing endpoints
                f_push(run_seed, false)
            } else {
                // (a third of these with publishers that go away before they are answered)
                f_general(run_seed, &GeneralOpts { rich_payloads: true, publisher_faults: pick % 3 == 0, push: pick < 50, big_batches: false, ..full })
            }
        }
        "C10" => {
            if pick < 82 {
                f_names(run_seed, 1 + pick % 4, pick < 50)
            } else if pick < 90 {
                // a create / delete handled while the topic's mailbox is full
                f_topicburst(run_seed)
            } else if pick < 94 {
                // a slow, then abandoned create while the name is deleted and created again
                f_recreate(run_seed)
            } else if pick < 97 {
                // overlapping deletes of a topic, one of them slow, while the name is created again
                f_retopic(run_seed)
            } else {
                f_dupcreate(run_seed).with_tag("names")
            }
        }
        "C11" => {
            if pick < 10 {
                // push subscriptions orphaned by DeleteTopic keep pushing what they hold
                f_push(run_seed, false)
            } else if pick < 56 {
                f_names(run_seed, pick % 3, pick % 2 == 0)
            } else if pick < 64 {
                // the topic deleted under a subscription that has consumers connected, then the
                // subscription itself: what Get / List say in between and afterwards
                f_delete(run_seed, false).with_tag("audit_lists")
            } else if pick < 69 {
                // a subscription created / deleted while the topic's mailbox is full
                f_topicburst(run_seed)
            } else {
                f_general(run_seed, &GeneralOpts { stalls: false, ..full }).with_tag("audit_lists")
            }
        }
        "C12" => {
            if pick >= 94 {
                // DeleteSubscription handled while the topic's mailbox is full, consumers waiting
                f_topicburst(run_seed)
            } else if pick < 84 {
                f_delete(run_seed, false)
            } else {
                f_names(run_seed, 1 + pick % 3, false)
            }
        }
        "C13" => {
            if pick >= 97 {
                // a subscription deleted while the topic's mailbox is full: the topic's listing afterwards
                f_topicburst(run_seed)
            } else if pick >= 92 {
                // overlapping deletes of a topic, one of them slow, while the name is created again:
                // what the listings say afterwards
                f_retopic(run_seed)
            } else if pick < 5 {
                // a slow DeleteSubscription while the same name is created again, then both listings
                f_redelete(run_seed)
            } else if pick < 84 {
                f_listing(run_seed, mix2(run_seed, 0xB16) % 1000 < if _thorough { 20 } else { 12 })
            } else {
                // listings of names with racing / failed / abandoned creates and deletes behind them
                f_names(run_seed, 1 + pick % 3, true)
            }
        }
        "C14" => f_push(run_seed, pick < 35),
        "C16" => {
            if pick >= 97 {
                // requests with more than 1000 messages / ack IDs whose client goes away
                f_cancel_big(run_seed)
            } else if pick < 77 {
                f_cancel(run_seed)
            } else if pick < 85 {
                // push subscriptions whose creating client goes away before it is answered
                f_push(run_seed, false)
            } else {
                // consumers that go away while parked / while being woken, next to consumers that stay
                f_consumers(run_seed, true).with_tag("cancel")
            }
        }
        "C17" => {
            if pick >= 96 {
                // malformed requests on a real HTTP/2 connection on which many Pulls are parked
                f_conn(run_seed)
            } else {
                f_hostile(run_seed)
            }
        }
        "C15" => {
            if pick >= 90 {
                // a Pull that is (re)issued while the subscription's mailbox is full: it still returns
                // what is available
                f_consumers_saturated(run_seed)
            } else if pick < 45 {
                f_limits(run_seed, true)
            } else if pick < 70 {
                f_lease(run_seed, &LeaseOpts { modacks: false, limits: true })
            } else {
                f_consumers(run_seed, pick % 2 == 0)
            }
        }
        _ => f_general(run_seed, &full),
    }
}

pub fn nontrivial(id: &str, f: &Facts, probes: &std::collections::BTreeMap<String, u64>) -> bool {
    let probe = |n: &str| probes.get(n).cloned().unwrap_or(0);
    match id {
        "C01" => f.max_subs_per_topic >= 2 && f.overlapping_publishes >= 1 && f.redeliveries >= 1,
        "C02" => f.acks_ok >= 1 && f.clock_jumps >= 1 && f.messages >= 2,
        "C03" => f.overlapping_consumers >= 1 || f.redeliveries >= 1,
        "C04" => f.redeliveries >= 1 && probe("expiry_batch_1") + probe("expiry_batch_gt1") >= 1,
        "C05" => f.modacks + f.nacks >= 1 && f.deliveries >= 1,
        "C06" => f.parked_woken >= 1 || (f.stream_items >= 1 && f.streams >= 1),
        "C07" => probe("mailbox_full_at_send") + probe("post_blocked_on_full_mailbox") + probe("topic_mailbox_full_at_send") >= 1,
        "C08" => f.overlapping_publishes >= 1 && f.max_subs_per_topic >= 2,
        "C09" => f.redeliveries >= 1 && f.deliveries >= 2,
        "C10" => f.overlapping_name_ops >= 1,
        "C11" => (f.deletes_sub + f.deletes_topic) >= 1 && f.walks >= 1,
        "C13" => f.pages >= 2 && f.walks >= 1,
        "C14" => f.post_failures >= 1 && f.posts >= 2,
        "C16" => f.abandoned >= 1,
        "C17" => f.invalid_argument >= 3,
        "C12" => f.deletes_sub >= 1 && (f.streams >= 1 || f.parked_woken >= 1 || probe("pull_parked") >= 1),
        "C15" => probe("pull_left_backlog") >= 1 || f.parked_woken >= 1,
        _ => f.calls > 0,
    }
}
