//! The recorded history of one run: gRPC-visible events plus push endpoint events and barrier
//! snapshots, each stamped with a global sequence number and the virtual time.
use serde::{Deserialize, Serialize};
use std::collections::BTreeMap;

/// gRPC status code as a small integer (tonic::Code as i32); 0 = OK.
pub type Code = i32;

pub const OK: Code = 0;
pub const CANCELLED: Code = 1;
pub const INVALID_ARGUMENT: Code = 3;
pub const NOT_FOUND: Code = 5;
pub const ALREADY_EXISTS: Code = 6;
pub const FAILED_PRECONDITION: Code = 9;
pub const UNIMPLEMENTED: Code = 12;
pub const INTERNAL: Code = 13;

#[derive(Serialize, Deserialize, Clone, Debug, PartialEq)]
pub struct Recv {
    pub ack_id: String,
    pub msg_id: String,
    /// FNV of the data bytes and the data length (the full bytes are not kept).
    pub data_hash: u64,
    pub data_len: u64,
    pub attrs_hash: u64,
    pub attrs_len: u64,
    /// Token recovered from the payload ("<publish call>:<index>"), if any.
    pub token: String,
    /// publish_time as (seconds, nanos); None for push.
    pub publish_time: Option<(i64, i32)>,
}

#[derive(Serialize, Deserialize, Clone, Debug, PartialEq)]
pub struct SubView {
    pub name: String,
    pub topic: String,
    pub ack_deadline: i32,
    pub push_endpoint: Option<String>,
    pub push_attrs: BTreeMap<String, String>,
    pub oidc: Option<(String, String)>,
}

#[derive(Serialize, Deserialize, Clone, Debug, PartialEq)]
pub struct Page {
    pub page_size: i32,
    pub token: String,
    pub code: Code,
    pub names: Vec<String>,
    pub next: String,
}

#[derive(Serialize, Deserialize, Clone, Debug, PartialEq)]
pub enum Resp {
    Empty,
    Topic(String),
    Sub(SubView),
    Subs(Vec<SubView>, String),
    Names(Vec<String>, String),
    Walk(Vec<Page>),
    Published(Vec<String>),
    Pulled(Vec<Recv>),
    /// DrainPull: one entry per response.
    Drained(Vec<Vec<Recv>>),
}

#[derive(Serialize, Deserialize, Clone, Debug, PartialEq)]
pub enum Outcome {
    Ok(Resp),
    Err(Code, String),
    /// Dropped by the harness at its k-th real suspension.
    Abandoned(u32),
    /// Did not return within the virtual hang limit.
    Hang,
    Panic(String),
}

impl Outcome {
    pub fn code(&self) -> Option<Code> {
        match self {
            Outcome::Ok(_) => Some(OK),
            Outcome::Err(c, _) => Some(*c),
            _ => None,
        }
    }
    pub fn is_ok(&self) -> bool {
        matches!(self, Outcome::Ok(_))
    }
}

/// The concrete request that was sent (selectors resolved).
#[derive(Serialize, Deserialize, Clone, Debug, PartialEq)]
pub enum Req {
    CreateTopic { topic: String },
    DeleteTopic { topic: String },
    GetTopic { topic: String },
    CreateSub { sub: String, topic: String, ack_deadline: i32, push: Option<crate::plan::PushSpec> },
    DeleteSub { sub: String },
    GetSub { sub: String },
    ListPage { kind: crate::plan::ListKind, parent: String, page_size: i32, token: String },
    Walk { kind: crate::plan::ListKind, parent: String, page_size: i32 },
    /// tokens[i] identifies message i; specs kept for field comparison.
    Publish { topic: String, tokens: Vec<String>, data_hash: Vec<u64>, data_len: Vec<u64>, attrs_hash: Vec<u64>, attrs_len: Vec<u64> },
    Pull { sub: String, max: i32, immediate: bool, bg_slot: Option<u32> },
    DrainPull { sub: String },
    Ack { sub: String, ack_ids: Vec<String> },
    ModAck { sub: String, ack_ids: Vec<String>, secs: i32 },
}

#[derive(Serialize, Deserialize, Clone, Debug, PartialEq)]
pub enum StreamEnd {
    /// Terminal gRPC status.
    Status(Code, String),
    /// The response stream ended without a status (clean end).
    Eof,
    /// The harness dropped the stream.
    Dropped,
    Panic(String),
}

#[derive(Serialize, Deserialize, Clone, Debug, PartialEq)]
pub enum Ev {
    Invoke { call: u32, req: Req, abandon_at: u32 },
    Return { call: u32, out: Outcome },
    StreamOpen {
        slot: u32,
        sub: String,
        max_msgs: i64,
        max_bytes: i64,
        #[serde(default)]
        window: u32,
    },
    /// The initial call returned (headers) – Ok or an error status.
    StreamStarted { slot: u32, code: Code },
    StreamItem { slot: u32, recvs: Vec<Recv> },
    StreamSend { slot: u32, acks: Vec<String>, modacks: Vec<String>, modack_secs: Vec<i32>, hostile: bool },
    StreamCloseReq { slot: u32 },
    /// The client of a windowed stream stops / resumes reading responses.
    StreamStall { slot: u32, on: bool },
    StreamEnd { slot: u32, end: StreamEnd },
    CancelBg { slot: u32 },
    Post {
        post: u32,
        url: String,
        sub: String,
        parse_ok: bool,
        recv: Recv,
        msg_id_dupe: String,
        content_type: String,
        attrs: BTreeMap<String, String>,
    },
    /// The endpoint's answer reached the server (virtual time of the answer).
    Answer { post: u32, status: Option<u16>, never: bool },
    EndpointFaultsOff,
    PhaseStart { phase: u32 },
    Barrier { phase: u32, quiescent: bool },
    Advance { us: u64 },
    Stats { sub: String, found: bool, backlog: u64, outstanding: u64, topic: String },
    Registry { subs: Vec<String> },
    DrainStart,
    DrainEnd,
    HealthStart,
    Note { text: String },
}

#[derive(Serialize, Deserialize, Clone, Debug, PartialEq)]
pub struct Event {
    pub seq: u64,
    pub t_us: u64,
    pub client: u32,
    pub ev: Ev,
}

#[derive(Default, Debug)]
pub struct Log {
    pub events: Vec<Event>,
}
