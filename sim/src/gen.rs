//! Plan generators: one seed -> one Plan, per scenario family (DESIGN.md §4).
use crate::plan::*;
use crate::rng::Rng;

pub const ALL_SITES: u64 = u64::MAX;

pub fn topic_name(project: &str, i: usize) -> String {
    format!("projects/{project}/topics/topic-{i}")
}
pub fn sub_name(project: &str, t: usize, j: usize) -> String {
    format!("projects/{project}/subscriptions/sub-{t}-{j}")
}

fn sel_mine(pick: Pick) -> Sel {
    Sel { mine: true, pick, extra: vec![] }
}
fn sel_any(pick: Pick) -> Sel {
    Sel { mine: false, pick, extra: vec![] }
}

/// Swarm-style knobs: yields on/off, probability, site subset, stalls only when allowed.
fn knobs(rng: &mut Rng, allow_stall: bool, push_interval_ms: u32) -> Knobs {
    let mut k = Knobs::default();
    k.push_interval_ms = push_interval_ms;
    k.pre_advance_us = rng.below(250_000);
    let mode = rng.below(100);
    if mode < 25 {
        // fault-free, yield-free: oracles at full strictness
        k.site_mask = 0;
    } else {
        k.yield_permille = *rng.pick(&[50u32, 150, 300, 500]);
        k.max_yields = rng.range(1, 4) as u32;
        k.site_mask = if rng.chance(500) { ALL_SITES } else { rng.next() | rng.next() };
        if allow_stall && rng.chance(400) {
            k.stall_permille = *rng.pick(&[20u32, 60, 150]);
            k.stall_max_us = *rng.pick(&[500u64, 3_000, 8_000]);
        }
    }
    k
}

fn msgs(rng: &mut Rng, n: usize, rich: bool) -> Vec<MsgSpec> {
    (0..n)
        .map(|_| {
            if rich {
                MsgSpec { data: *rng.pick(&[0u8, 1, 1, 2, 3, 6, 1, 4]), attrs: *rng.pick(&[0u8, 1, 1, 2, 3, 4, 5]) }
            } else {
                MsgSpec { data: 1, attrs: *rng.pick(&[0u8, 1]) }
            }
        })
        .collect()
}

fn msgs_r(rng: &mut Rng, lo: u64, hi: u64, rich: bool) -> Vec<MsgSpec> {
    let n = rng.range(lo, hi) as usize;
    msgs(rng, n, rich)
}

const ADVANCES: [u64; 9] = [0, 0, 1_000_000, 9_900_000, 10_200_000, 12_000_000, 31_000_000, 61_000_000, 700_000_000];

// ------------------------------------------------------------------------------------------------
// F-general
// ------------------------------------------------------------------------------------------------

pub struct GeneralOpts {
    pub rich_payloads: bool,
    pub consumer_faults: bool,
    pub publisher_faults: bool,
    pub deletes: bool,
    pub push: bool,
    pub stalls: bool,
    pub big_batches: bool,
    pub single_drain_consumer_share: u64,
}

pub fn f_general(seed: u64, o: &GeneralOpts) -> Plan {
    let mut rng = Rng::new(seed);
    let project = "proj-a";
    let n_topics = rng.range(1, 3) as usize;
    let push_interval = if o.push { *rng.pick(&[100u32, 1000, 5000]) } else { 0 };
    let mut plan = Plan { seed, family: "general".into(), knobs: knobs(&mut rng, o.stalls, push_interval), final_drain: true, health_probe: true, ..Default::default() };
    let faultless = plan.knobs.site_mask == 0;
    let mut setup = Vec::new();
    let mut subs: Vec<(String, usize, bool)> = Vec::new(); // (name, topic, is_push)
    let mut topics = Vec::new();
    for t in 0..n_topics {
        topics.push(topic_name(project, t));
        setup.push(Step::new(Op::CreateTopic { topic: topic_name(project, t) }));
        let n_subs = rng.range(if t == 0 { 1 } else { 0 }, 4) as usize;
        for j in 0..n_subs {
            let is_push = o.push && rng.chance(300);
            let push = if is_push { Some(PushSpec { endpoint: format!("http://endpoint-{t}-{j}.test/push"), attrs: Default::default(), oidc: None }) } else { None };
            let dl = *rng.pick(&[0i32, 10, 10, 11, 15, 30, 60]);
            subs.push((sub_name(project, t, j), t, is_push));
            setup.push(Step::new(Op::CreateSub { sub: sub_name(project, t, j), topic: topic_name(project, t), ack_deadline: dl, push }));
        }
    }
    plan.phases.push(Phase { scripts: vec![setup], advance_us: rng.below(150_000), audit: false });
    if o.push {
        plan.endpoint = EndpointPlan {
            palette: vec![Behaviour::Status(200), Behaviour::Status(204), Behaviour::Status(500), Behaviour::Status(404), Behaviour::ConnErr, Behaviour::Delay(300, 200), Behaviour::Delay(200, 503)],
            fault_attempts: rng.range(0, 3) as u32,
            script: vec![],
            after: None,
        };
    }
    let single_consumer = rng.below(100) < o.single_drain_consumer_share;
    let n_phases = rng.range(2, 5) as usize;
    let mut next_slot = 1u32;
    let mut late_sub = 0usize;
    let mut deleted: Vec<String> = Vec::new();
    let consumer_faults = o.consumer_faults && !faultless && !single_consumer;
    for ph in 0..n_phases {
        let mut scripts: Vec<Vec<Step>> = Vec::new();
        // publishers
        let n_pub = rng.range(1, 4) as usize;
        for _ in 0..n_pub {
            let mut s = Vec::new();
            let t = rng.below(n_topics as u64) as usize;
            for _ in 0..rng.range(1, 4) {
                let n = if o.big_batches && rng.chance(150) { rng.range(20, 50) as usize } else { rng.range(1, 6) as usize };
                let mut st = Step::after(rng.below(3) * rng.below(40_000), Op::Publish { topic: topics[t].clone(), msgs: msgs(&mut rng, n, o.rich_payloads) });
                if o.publisher_faults && !faultless && rng.chance(60) {
                    st.abandon_at = rng.range(1, 3) as u32;
                }
                s.push(st);
            }
            scripts.push(s);
        }
        // consumers
        let live: Vec<&(String, usize, bool)> = subs.iter().filter(|s| !deleted.contains(&s.0)).collect();
        for (name, _t, is_push) in live.iter().map(|x| (*x).clone()) {
            if is_push && rng.chance(700) {
                continue;
            }
            let n_cons = if single_consumer { 1 } else { rng.range(0, 3) as usize };
            for _ in 0..n_cons {
                let mut s = Vec::new();
                let kind = if single_consumer { 0 } else { rng.below(10) };
                match kind {
                    0..=5 => {
                        for _ in 0..rng.range(1, 4) {
                            let max = *rng.pick(&[1i32, 2, 5, 10, 100, 1000]);
                            let immediate = rng.chance(700);
                            let mut st = Step::after(rng.below(50_000), Op::Pull { sub: name.clone(), max, immediate });
                            if consumer_faults && rng.chance(80) {
                                st.abandon_at = rng.range(1, 3) as u32;
                            }
                            s.push(st);
                            match rng.below(10) {
                                0..=4 => s.push(Step::new(Op::Ack { sub: name.clone(), sel: sel_mine(Pick::LastResponse) })),
                                5 => s.push(Step::new(Op::ModAck { sub: name.clone(), sel: sel_mine(Pick::LastResponse), secs: 0 })),
                                6 => s.push(Step::new(Op::ModAck { sub: name.clone(), sel: sel_mine(Pick::LastN(2)), secs: *rng.pick(&[1i32, 12, 30, 600]) })),
                                7 => s.push(Step::new(Op::Ack { sub: name.clone(), sel: Sel { mine: false, pick: Pick::OldestN(2), extra: vec!["999999".into()] } })),
                                _ => {}
                            }
                        }
                    }
                    6 | 7 => {
                        let slot = next_slot;
                        next_slot += 1;
                        let policy = match rng.below(4) {
                            0 => StreamPolicy::Hold,
                            1 => StreamPolicy::NackFirst,
                            2 => StreamPolicy::ModAck(*rng.pick(&[12i32, 20])),
                            _ => StreamPolicy::AckAll,
                        };
                        s.push(Step::after(rng.below(20_000), Op::StreamOpen { slot, sub: name.clone(), max_msgs: *rng.pick(&[0i64, 1, 3, 100]), max_bytes: 0, policy }));
                        if rng.chance(400) {
                            s.push(Step::after(rng.range(1_000, 200_000), Op::StreamSend { slot, ack: sel_any(Pick::LastN(3)), modack: Sel::none(), modack_secs: 0, raw_sub: String::new(), raw_max_msgs: 0, raw_max_bytes: 0, extra_secs: vec![] }));
                        }
                        if consumer_faults && rng.chance(300) {
                            s.push(Step::after(rng.range(1_000, 300_000), Op::StreamDrop { slot }));
                        } else if rng.chance(300) {
                            s.push(Step::after(rng.range(1_000, 300_000), Op::StreamCloseReq { slot }));
                        }
                    }
                    _ => {
                        let slot = next_slot;
                        next_slot += 1;
                        s.push(Step::after(rng.below(20_000), Op::PullBg { slot, sub: name.clone(), max: *rng.pick(&[1i32, 3, 1000]) }));
                        if consumer_faults && rng.chance(300) {
                            s.push(Step::after(rng.range(1_000, 100_000), Op::CancelBg { slot }));
                        }
                    }
                }
                scripts.push(s);
            }
        }
        // late subscription (unique name), deletions at a low rate
        if rng.chance(300) {
            let t = rng.below(n_topics as u64) as usize;
            let name = format!("projects/{project}/subscriptions/late-{late_sub}");
            late_sub += 1;
            scripts.push(vec![Step::after(rng.below(60_000), Op::CreateSub { sub: name.clone(), topic: topics[t].clone(), ack_deadline: 10, push: None })]);
            subs.push((name, t, false));
        }
        if o.deletes && ph > 0 && rng.chance(150) {
            let live: Vec<String> = subs.iter().filter(|s| !deleted.contains(&s.0)).map(|s| s.0.clone()).collect();
            if !live.is_empty() {
                let name = rng.pick(&live).clone();
                deleted.push(name.clone());
                scripts.push(vec![Step::after(rng.below(60_000), Op::DeleteSub { sub: name })]);
            }
        }
        if o.deletes && ph + 1 == n_phases && rng.chance(100) {
            let t = rng.below(n_topics as u64) as usize;
            scripts.push(vec![Step::after(rng.below(60_000), Op::DeleteTopic { topic: topics[t].clone() })]);
        }
        plan.phases.push(Phase { scripts, advance_us: *rng.pick(&ADVANCES) + rng.below(100_000), audit: rng.chance(500) });
    }
    if single_consumer {
        plan.tags.push("single_consumer".into());
    }
    plan
}

// ------------------------------------------------------------------------------------------------
// F-lease: one subscription, one sequential client, probes around deadlines.
// ------------------------------------------------------------------------------------------------

pub struct LeaseOpts {
    pub modacks: bool,
    pub limits: bool,
}

pub fn f_lease(seed: u64, o: &LeaseOpts) -> Plan {
    let mut rng = Rng::new(seed);
    let mut plan = Plan { seed, family: "lease".into(), final_drain: true, health_probe: false, ..Default::default() };
    plan.tags.push("sequential".into());
    // Yields do not change a sequential history's outcome but do exercise the hooks; no stalls.
    plan.knobs = knobs(&mut rng, false, 0);
    plan.knobs.pre_advance_us = rng.below(400_000);
    let topic = topic_name("proj-l", 0);
    let sub = sub_name("proj-l", 0, 0);
    let dl_req = *rng.pick(&[-5i32, 0, 1, 9, 10, 10, 11, 17, 60, 599, 600]);
    let d_us = (dl_req.max(10) as u64) * 1_000_000;
    plan.phases.push(Phase {
        scripts: vec![vec![
            Step::new(Op::CreateTopic { topic: topic.clone() }),
            Step::new(Op::CreateSub { sub: sub.clone(), topic: topic.clone(), ack_deadline: dl_req, push: None }),
        ]],
        advance_us: rng.below(300_000),
        audit: false,
    });
    let mut script: Vec<Step> = Vec::new();
    // The generator tracks virtual time (calls take no virtual time in a sequential, stall-free
    // run) and the instants that matter: hand-outs and modifications.
    let mut now: u64 = 0;
    let mut marks: Vec<u64> = Vec::new(); // candidate deadline instants (lo side)
    let n_steps = rng.range(4, 12);
    script.push(Step::after(rng.below(120_000), Op::Publish { topic: topic.clone(), msgs: msgs_r(&mut rng, 1, 4, false) }));
    let mut pulled_any = false;
    for _ in 0..n_steps {
        // choose a delay: either small jitter or aimed at a boundary of a pending deadline
        let delay = if !marks.is_empty() && rng.chance(600) {
            let mark = *rng.pick(&marks);
            let target = match rng.below(7) {
                0 => mark.saturating_sub(1_000),
                1 => mark.saturating_sub(150_000),
                2 => mark.saturating_sub(rng.range(1, 99) * 1_000),
                3 => mark + SLACK_PROBE,
                4 => mark + SLACK_PROBE + rng.below(200_000),
                5 => mark + 2 * d_us,
                _ => mark + rng.below(1_200_000),
            };
            target.saturating_sub(now)
        } else {
            *rng.pick(&[0u64, 0, 1_000, 37_000, 100_000, 950_000, 3_000_000]) + rng.below(1_000)
        };
        now += delay;
        let op = match rng.below(if o.modacks { 12 } else { 9 }) {
            0 | 1 => Op::Publish { topic: topic.clone(), msgs: msgs_r(&mut rng, 1, 3, false) },
            2..=5 => {
                pulled_any = true;
                marks.push(now + d_us);
                let max = if o.limits { *rng.pick(&[1i32, 2, 1000, 1000]) } else { 1000 };
                Op::Pull { sub: sub.clone(), max, immediate: true }
            }
            6 => Op::Ack { sub: sub.clone(), sel: sel_any(rng.pick(&[Pick::LastN(1), Pick::Nth(0), Pick::Nth(1), Pick::LastResponse, Pick::OldestN(1)]).clone()) },
            7 => Op::Ack { sub: sub.clone(), sel: Sel { mine: false, pick: Pick::None, extra: vec![rng.pick(&["424242", "1", "3", "0"]).to_string()] } },
            8 => Op::Nop,
            9 | 10 => {
                let secs = *rng.pick(&[0i32, 0, 1, 5, 9, 10, 11, 30, 599, 600, 601, 100_000, i32::MAX]);
                if secs > 0 {
                    marks.push(now + (secs.min(600) as u64) * 1_000_000);
                }
                Op::ModAck { sub: sub.clone(), sel: sel_any(rng.pick(&[Pick::LastN(1), Pick::Nth(0), Pick::LastResponse, Pick::All, Pick::Nth(2)]).clone()), secs }
            }
            _ => {
                // a request that must be rejected as a whole
                let bad = rng.chance(500);
                if bad {
                    Op::ModAck { sub: sub.clone(), sel: Sel { mine: false, pick: Pick::LastN(2), extra: vec!["not-a-number".into()] }, secs: 30 }
                } else {
                    Op::ModAck { sub: sub.clone(), sel: sel_any(Pick::LastN(2)), secs: *rng.pick(&[-1i32, i32::MIN, -600]) }
                }
            }
        };
        script.push(Step::after(delay, op));
        if marks.len() > 6 {
            marks.remove(0);
        }
    }
    if !pulled_any {
        script.push(Step::new(Op::Pull { sub: sub.clone(), max: 1000, immediate: true }));
        now += 0;
        marks.push(now + d_us);
    }
    // closing probes on both sides of the last deadline
    if let Some(mark) = marks.last().cloned() {
        let early = mark.saturating_sub(1_000);
        if early > now {
            script.push(Step::after(early - now, Op::Pull { sub: sub.clone(), max: 1000, immediate: true }));
            now = early;
        }
    }
    script.push(Step::after(rng.below(2_000_000), Op::Pull { sub: sub.clone(), max: 1000, immediate: true }));
    plan.phases.push(Phase { scripts: vec![script], advance_us: *rng.pick(&ADVANCES), audit: true });
    // a last sequential probe after the jump
    plan.phases.push(Phase { scripts: vec![vec![Step::new(Op::Pull { sub: sub.clone(), max: 1000, immediate: true })]], advance_us: 0, audit: false });
    plan
}

const SLACK_PROBE: u64 = 1_000_000;

// ------------------------------------------------------------------------------------------------
// F-consumers: competing waiting consumers on one subscription; availability by publish, nack, expiry.
// ------------------------------------------------------------------------------------------------

pub fn f_consumers(seed: u64, cancel: bool) -> Plan {
    let mut rng = Rng::new(seed);
    let mut plan = Plan { seed, family: "consumers".into(), final_drain: true, health_probe: true, ..Default::default() };
    plan.knobs = knobs(&mut rng, false, 0);
    if plan.knobs.site_mask != 0 {
        plan.knobs.yield_permille = *rng.pick(&[300u32, 500, 700]);
        plan.knobs.max_yields = rng.range(1, 6) as u32;
    }
    let topic = topic_name("proj-c", 0);
    let sub = sub_name("proj-c", 0, 0);
    let dl = *rng.pick(&[10i32, 10, 12]);
    plan.phases.push(Phase {
        scripts: vec![vec![Step::new(Op::CreateTopic { topic: topic.clone() }), Step::new(Op::CreateSub { sub: sub.clone(), topic: topic.clone(), ack_deadline: dl, push: None })]],
        advance_us: rng.below(200_000),
        audit: false,
    });
    let mut slot = 1u32;
    let n_phases = rng.range(2, 5);
    for ph in 0..n_phases {
        let mut scripts: Vec<Vec<Step>> = Vec::new();
        // consumers that park
        let n_cons = rng.range(1, 5);
        for _ in 0..n_cons {
            let mut s = Vec::new();
            match rng.below(3) {
                0 | 1 => {
                    let my = slot;
                    slot += 1;
                    s.push(Step::after(rng.below(3) * rng.below(2_000), Op::PullBg { slot: my, sub: sub.clone(), max: *rng.pick(&[1i32, 1, 2, 1000]) }));
                    if cancel && rng.chance(250) {
                        s.push(Step::after(rng.below(3) * rng.below(3_000), Op::CancelBg { slot: my }));
                    }
                }
                _ => {
                    let my = slot;
                    slot += 1;
                    let policy = if rng.chance(500) { StreamPolicy::Hold } else { StreamPolicy::AckAll };
                    s.push(Step::after(rng.below(3) * rng.below(2_000), Op::StreamOpen { slot: my, sub: sub.clone(), max_msgs: *rng.pick(&[0i64, 1, 2]), max_bytes: 0, policy }));
                    if cancel && rng.chance(200) {
                        s.push(Step::after(rng.below(3) * rng.below(3_000), Op::StreamDrop { slot: my }));
                    }
                }
            }
            scripts.push(s);
        }
        // availability events, racing with the consumers' check-then-wait
        let n_ev = rng.range(1, 3);
        for _ in 0..n_ev {
            let mut s = Vec::new();
            match rng.below(4) {
                0 | 1 => {
                    for _ in 0..rng.range(1, 3) {
                        s.push(Step::after(rng.below(3) * rng.below(2_500), Op::Publish { topic: topic.clone(), msgs: msgs_r(&mut rng, 1, 4, false) }));
                    }
                }
                2 => {
                    if ph > 0 {
                        s.push(Step::after(rng.below(3) * rng.below(2_500), Op::ModAck { sub: sub.clone(), sel: sel_any(Pick::LastN(rng.range(1, 3) as u32)), secs: 0 }));
                    } else {
                        s.push(Step::after(rng.below(2_500), Op::Publish { topic: topic.clone(), msgs: msgs(&mut rng, 2, false) }));
                    }
                }
                _ => {
                    s.push(Step::after(rng.below(3) * rng.below(2_500), Op::Pull { sub: sub.clone(), max: 1, immediate: true }));
                }
            }
            scripts.push(s);
        }
        let advance = *rng.pick(&[0u64, 0, 500_000, (dl as u64) * 1_000_000 + 1_200_000, 13_000_000]);
        plan.phases.push(Phase { scripts, advance_us: advance, audit: true });
        // an empty phase after the jump so that the expiry wake-ups are audited at quiescence
        if advance > 5_000_000 {
            plan.phases.push(Phase { scripts: vec![], advance_us: 0, audit: true });
        }
    }
    plan
}

// ------------------------------------------------------------------------------------------------
// F-delete / F-burst: deletion against waiting consumers, bursts against one actor.
// ------------------------------------------------------------------------------------------------

pub fn f_delete(seed: u64, burst: bool) -> Plan {
    let mut rng = Rng::new(seed);
    let mut plan = Plan { seed, family: if burst { "burst" } else { "delete" }.into(), final_drain: false, health_probe: true, ..Default::default() };
    plan.knobs = knobs(&mut rng, false, 0);
    let topic = topic_name("proj-d", 0);
    let n_subs = rng.range(1, 2) as usize;
    let mut setup = vec![Step::new(Op::CreateTopic { topic: topic.clone() })];
    for j in 0..n_subs {
        setup.push(Step::new(Op::CreateSub { sub: sub_name("proj-d", 0, j), topic: topic.clone(), ack_deadline: 10, push: None }));
    }
    if rng.chance(500) {
        setup.push(Step::new(Op::Publish { topic: topic.clone(), msgs: msgs_r(&mut rng, 1, 5, false) }));
    }
    plan.phases.push(Phase { scripts: vec![setup], advance_us: 0, audit: false });
    let victim = sub_name("proj-d", 0, 0);
    // waiting consumers
    let mut scripts = Vec::new();
    let mut slot = 1;
    for _ in 0..rng.range(0, 3) {
        let my = slot;
        slot += 1;
        let mut s = vec![Step::after(rng.below(2_000), Op::StreamOpen { slot: my, sub: victim.clone(), max_msgs: 0, max_bytes: 0, policy: if rng.chance(500) { StreamPolicy::AckAll } else { StreamPolicy::Hold } })];
        if rng.chance(500) {
            s.push(Step::after(rng.range(100, 3_000), Op::StreamCloseReq { slot: my }));
        }
        scripts.push(s);
    }
    for _ in 0..rng.range(0, 3) {
        let my = slot;
        slot += 1;
        scripts.push(vec![Step::after(rng.below(2_000), Op::PullBg { slot: my, sub: victim.clone(), max: 10 })]);
    }
    plan.phases.push(Phase { scripts, advance_us: rng.below(2_000_000), audit: false });
    // the delete, racing with other requests
    let mut scripts: Vec<Vec<Step>> = Vec::new();
    let n_racers = if burst { rng.range(10, 40) } else { rng.range(0, 6) };
    let delete_pos = rng.below(n_racers + 1);
    for i in 0..=n_racers {
        if i == delete_pos {
            scripts.push(vec![Step::after(rng.below(3) * rng.below(500), Op::DeleteSub { sub: victim.clone() })]);
            continue;
        }
        let target = if n_subs > 1 && rng.chance(200) { sub_name("proj-d", 0, 1) } else { victim.clone() };
        let op = match rng.below(8) {
            0 | 1 => Op::Pull { sub: target, max: 10, immediate: true },
            2 => Op::Ack { sub: target, sel: sel_any(Pick::LastN(2)) },
            3 => Op::ModAck { sub: target, sel: sel_any(Pick::LastN(2)), secs: *rng.pick(&[0i32, 20]) },
            4 => Op::GetSub { sub: target },
            5 | 6 => Op::Publish { topic: topic.clone(), msgs: msgs_r(&mut rng, 1, 3, false) },
            _ => Op::Walk { kind: ListKind::TopicSubs, parent: topic.clone(), page_size: 10 },
        };
        scripts.push(vec![Step::after(rng.below(3) * rng.below(500), op)]);
    }
    plan.phases.push(Phase { scripts, advance_us: 0, audit: true });
    plan.phases.push(Phase { scripts: vec![vec![Step::new(Op::GetSub { sub: victim.clone() }), Step::new(Op::Publish { topic: topic.clone(), msgs: msgs(&mut rng, 1, false) })]], advance_us: 0, audit: true });
    plan
}
