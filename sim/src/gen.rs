//! Plan generators: one seed -> one Plan, per scenario family (DESIGN.md §4).
use crate::plan::*;
use crate::rng::Rng;

pub const ALL_SITES: u64 = u64::MAX;

pub fn topic_name(project: &str, i: usize) -> String {
    format!("projects/{project}/topics/topic-{i}")
}
pub fn sub_name(project: &str, t: usize, j: usize) -> String {
    format!("projects/{project}/subscriptions/sub-{t}-{j}")
}

fn sel_mine(pick: Pick) -> Sel {
    Sel { mine: true, pick, ..Sel::none() }
}
fn sel_any(pick: Pick) -> Sel {
    Sel { mine: false, pick, ..Sel::none() }
}

/// Swarm-style knobs: yields on/off, probability, site subset, stalls only when allowed.
fn knobs(rng: &mut Rng, allow_stall: bool, push_interval_ms: u32) -> Knobs {
    let mut k = Knobs::default();
    k.push_interval_ms = push_interval_ms;
    k.pre_advance_us = rng.below(250_000);
    let mode = rng.below(100);
    if mode < 25 {
        // fault-free, yield-free: oracles at full strictness
        k.site_mask = 0;
    } else {
        k.yield_permille = *rng.pick(&[50u32, 150, 300, 500]);
        k.max_yields = rng.range(1, 4) as u32;
        k.site_mask = if rng.chance(500) { ALL_SITES } else { rng.next() | rng.next() };
        if allow_stall && rng.chance(400) {
            k.stall_permille = *rng.pick(&[20u32, 60, 150]);
            k.stall_max_us = *rng.pick(&[500u64, 3_000, 8_000]);
        }
    }
    k
}

fn msgs(rng: &mut Rng, n: usize, rich: bool) -> Vec<MsgSpec> {
    (0..n)
        .map(|_| {
            if rich {
                MsgSpec { data: *rng.pick(&[0u8, 1, 1, 2, 3, 6, 1, 4]), attrs: *rng.pick(&[0u8, 1, 1, 2, 3, 4, 5]) }
            } else {
                MsgSpec { data: 1, attrs: *rng.pick(&[0u8, 1]) }
            }
        })
        .collect()
}

fn msgs_r(rng: &mut Rng, lo: u64, hi: u64, rich: bool) -> Vec<MsgSpec> {
    let n = rng.range(lo, hi) as usize;
    msgs(rng, n, rich)
}

const ADVANCES: [u64; 9] = [0, 0, 1_000_000, 9_900_000, 10_200_000, 12_000_000, 31_000_000, 61_000_000, 700_000_000];

// ------------------------------------------------------------------------------------------------
// F-general
// ------------------------------------------------------------------------------------------------

pub struct GeneralOpts {
    pub rich_payloads: bool,
    pub consumer_faults: bool,
    pub publisher_faults: bool,
    pub deletes: bool,
    pub push: bool,
    pub stalls: bool,
    pub big_batches: bool,
    /// 1 = normal, 2 = wide (thorough tier: more topics, phases and consumers per run)
    pub scale: u64,
    pub single_drain_consumer_share: u64,
}

pub fn f_general(seed: u64, o: &GeneralOpts) -> Plan {
    let mut rng = Rng::new(seed);
    let project = "proj-a";
    let n_topics = rng.range(1, 2 + o.scale) as usize;
    let push_interval = if o.push { *rng.pick(&[100u32, 1000, 5000]) } else { 0 };
    let mut plan = Plan { seed, family: "general".into(), knobs: knobs(&mut rng, o.stalls, push_interval), final_drain: true, health_probe: true, ..Default::default() };
    let faultless = plan.knobs.site_mask == 0;
    let mut setup = Vec::new();
    let mut subs: Vec<(String, usize, bool)> = Vec::new(); // (name, topic, is_push)
    let mut topics = Vec::new();
    for t in 0..n_topics {
        topics.push(topic_name(project, t));
        setup.push(Step::new(Op::CreateTopic { topic: topic_name(project, t) }));
        let n_subs = rng.range(if t == 0 { 1 } else { 0 }, 4) as usize;
        for j in 0..n_subs {
            let is_push = o.push && rng.chance(300);
            let push = if is_push { Some(PushSpec { endpoint: format!("http://endpoint-{t}-{j}.test/push"), attrs: Default::default(), oidc: None }) } else { None };
            let dl = *rng.pick(&[0i32, 10, 10, 11, 15, 30, 60]);
            subs.push((sub_name(project, t, j), t, is_push));
            setup.push(Step::new(Op::CreateSub { sub: sub_name(project, t, j), topic: topic_name(project, t), ack_deadline: dl, push }));
        }
    }
    plan.phases.push(Phase { scripts: vec![setup], advance_us: rng.below(150_000), audit: false });
    if o.push {
        plan.endpoint = EndpointPlan {
            palette: vec![Behaviour::Status(200), Behaviour::Status(204), Behaviour::Status(500), Behaviour::Status(404), Behaviour::ConnErr, Behaviour::Delay(300, 200), Behaviour::Delay(200, 503)],
            fault_attempts: rng.range(0, 3) as u32,
            script: vec![],
            after: None,
        };
    }
    let single_consumer = rng.below(100) < o.single_drain_consumer_share;
    let n_phases = rng.range(2, 3 + 2 * o.scale) as usize;
    let mut next_slot = 1u32;
    let mut late_sub = 0usize;
    let mut deleted: Vec<String> = Vec::new();
    let consumer_faults = o.consumer_faults && !faultless && !single_consumer;
    for ph in 0..n_phases {
        let mut scripts: Vec<Vec<Step>> = Vec::new();
        // publishers
        let n_pub = rng.range(1, 4) as usize;
        for _ in 0..n_pub {
            let mut s = Vec::new();
            let t = rng.below(n_topics as u64) as usize;
            for _ in 0..rng.range(1, 4) {
                let n = if o.big_batches && rng.chance(150) { rng.range(20, 50) as usize } else { rng.range(1, 6) as usize };
                let op = Op::Publish { topic: topics[t].clone(), msgs: msgs(&mut rng, n, o.rich_payloads) };
                let mut st = Step::after(rng.below(3) * rng.below(40_000), op);
                if o.publisher_faults && !faultless && rng.chance(60) {
                    st.abandon_at = rng.range(1, 3) as u32;
                }
                s.push(st);
            }
            scripts.push(s);
        }
        // consumers
        let live: Vec<&(String, usize, bool)> = subs.iter().filter(|s| !deleted.contains(&s.0)).collect();
        for (name, _t, is_push) in live.iter().map(|x| (*x).clone()) {
            if is_push && rng.chance(700) {
                continue;
            }
            let n_cons = if single_consumer { 1 } else { rng.range(0, 2 + o.scale) as usize };
            for _ in 0..n_cons {
                let mut s = Vec::new();
                let kind = if single_consumer { 0 } else { rng.below(10) };
                match kind {
                    0..=5 => {
                        for _ in 0..rng.range(1, 4) {
                            let max = *rng.pick(&[1i32, 2, 5, 10, 100, 1000]);
                            let immediate = rng.chance(700);
                            let mut st = Step::after(rng.below(50_000), Op::Pull { sub: name.clone(), max, immediate });
                            if consumer_faults && rng.chance(80) {
                                st.abandon_at = rng.range(1, 3) as u32;
                            }
                            s.push(st);
                            match rng.below(10) {
                                0..=4 => s.push(Step::new(Op::Ack { sub: name.clone(), sel: sel_mine(Pick::LastResponse) })),
                                5 => s.push(Step::new(Op::ModAck { sub: name.clone(), sel: sel_mine(Pick::LastResponse), secs: 0 })),
                                6 => s.push(Step::new(Op::ModAck { sub: name.clone(), sel: sel_mine(Pick::LastN(2)), secs: *rng.pick(&[1i32, 12, 30, 600]) })),
                                7 => s.push(Step::new(Op::Ack { sub: name.clone(), sel: Sel { mine: false, pick: Pick::OldestN(2), extra: vec!["999999".into()], ..Sel::none() } })),
                                _ => {}
                            }
                        }
                    }
                    6 | 7 => {
                        let slot = next_slot;
                        next_slot += 1;
                        let policy = match rng.below(4) {
                            0 => StreamPolicy::Hold,
                            1 => StreamPolicy::NackFirst,
                            2 => StreamPolicy::ModAck(*rng.pick(&[12i32, 20])),
                            _ => StreamPolicy::AckAll,
                        };
                        s.push(Step::after(rng.below(20_000), Op::StreamOpen { slot, sub: name.clone(), max_msgs: *rng.pick(&[0i64, 1, 3, 100]), max_bytes: 0, policy, window: 0, stall_after: 0, stall_us: 0 }));
                        if rng.chance(400) {
                            let stream_secs = *rng.pick(&[0i32, 0, 0, 30, 600]);
                            let (modack, modack_secs) = if rng.chance(300) { (sel_mine(Pick::OldestN(1)), *rng.pick(&[20i32, 45])) } else { (Sel::none(), 0) };
                            s.push(Step::after(rng.range(1_000, 200_000), Op::StreamSend { slot, ack: sel_any(Pick::LastN(3)), modack, modack_secs, raw_sub: String::new(), raw_max_msgs: 0, raw_max_bytes: 0, extra_secs: vec![], secs_pattern: vec![], stream_secs }));
                        }
                        if consumer_faults && rng.chance(300) {
                            s.push(Step::after(rng.range(1_000, 300_000), Op::StreamDrop { slot }));
                        } else if rng.chance(300) {
                            s.push(Step::after(rng.range(1_000, 300_000), Op::StreamCloseReq { slot }));
                        }
                    }
                    _ => {
                        let slot = next_slot;
                        next_slot += 1;
                        s.push(Step::after(rng.below(20_000), Op::PullBg { slot, sub: name.clone(), max: *rng.pick(&[1i32, 3, 1000]) }));
                        if consumer_faults && rng.chance(300) {
                            s.push(Step::after(rng.range(1_000, 100_000), Op::CancelBg { slot }));
                        }
                    }
                }
                scripts.push(s);
            }
        }
        // late subscription (unique name), deletions at a low rate
        if rng.chance(300) {
            let t = rng.below(n_topics as u64) as usize;
            let name = format!("projects/{project}/subscriptions/late-{late_sub}");
            late_sub += 1;
            let mut create = Step::after(rng.below(60_000), Op::CreateSub { sub: name.clone(), topic: topics[t].clone(), ack_deadline: 10, push: None });
            let mut script = Vec::new();
            if consumer_faults && rng.chance(350) {
                // the creating client goes away; somebody else then finds the subscription there
                create.abandon_at = rng.range(1, 2) as u32;
                script.push(create);
                script.push(Step::after(rng.below(5_000), Op::GetSub { sub: name.clone() }));
            } else {
                script.push(create);
            }
            scripts.push(script);
            subs.push((name, t, false));
        }
        if o.deletes && ph > 0 && rng.chance(150) {
            let live: Vec<String> = subs.iter().filter(|s| !deleted.contains(&s.0)).map(|s| s.0.clone()).collect();
            if !live.is_empty() {
                let name = rng.pick(&live).clone();
                deleted.push(name.clone());
                scripts.push(vec![Step::after(rng.below(60_000), Op::DeleteSub { sub: name })]);
            }
        }
        if o.deletes && ph + 1 == n_phases && rng.chance(100) {
            let t = rng.below(n_topics as u64) as usize;
            scripts.push(vec![Step::after(rng.below(60_000), Op::DeleteTopic { topic: topics[t].clone() })]);
        }
        plan.phases.push(Phase { scripts, advance_us: *rng.pick(&ADVANCES) + rng.below(100_000), audit: rng.chance(500) });
    }
    if single_consumer {
        plan.tags.push("single_consumer".into());
    }
    plan
}

// ------------------------------------------------------------------------------------------------
// F-lease: one subscription, one sequential client, probes around deadlines.
// ------------------------------------------------------------------------------------------------

pub struct LeaseOpts {
    pub modacks: bool,
    pub limits: bool,
}

pub fn f_lease(seed: u64, o: &LeaseOpts) -> Plan {
    let mut rng = Rng::new(seed);
    let mut plan = Plan { seed, family: "lease".into(), final_drain: true, health_probe: false, ..Default::default() };
    plan.tags.push("sequential".into());
    // Yields do not change a sequential history's outcome but do exercise the hooks; no stalls.
    plan.knobs = knobs(&mut rng, false, 0);
    plan.knobs.pre_advance_us = rng.below(400_000);
    // a slow server: now and then a request task is held up for seconds between the handler's
    // look at the clock and the subscription actor (the oracle only uses invoke / return windows)
    if rng.chance(120) {
        plan.knobs.long_stall_permille = *rng.pick(&[100u32, 200, 350]);
        plan.knobs.long_stall_max_us = *rng.pick(&[1_500_000u64, 2_500_000]);
        if plan.knobs.site_mask == 0 {
            plan.knobs.site_mask = u64::MAX;
        }
    }
    let topic = topic_name("proj-l", 0);
    let sub = sub_name("proj-l", 0, 0);
    let dl_req = *rng.pick(&[-5i32, 0, 1, 9, 10, 10, 11, 17, 60, 599, 600]);
    let d_us = (dl_req.max(10) as u64) * 1_000_000;
    plan.phases.push(Phase {
        scripts: vec![vec![
            Step::new(Op::CreateTopic { topic: topic.clone() }),
            Step::new(Op::CreateSub { sub: sub.clone(), topic: topic.clone(), ack_deadline: dl_req, push: None }),
        ]],
        advance_us: rng.below(300_000),
        audit: false,
    });
    let mut script: Vec<Step> = Vec::new();
    // The generator tracks virtual time (calls take no virtual time in a sequential, stall-free
    // run) and the instants that matter: hand-outs and modifications.
    let mut now: u64 = 0;
    let mut marks: Vec<u64> = Vec::new(); // candidate deadline instants (lo side)
    let n_steps = rng.range(4, 12);
    script.push(Step::after(rng.below(120_000), Op::Publish { topic: topic.clone(), msgs: msgs_r(&mut rng, 1, 4, false) }));
    let mut pulled_any = false;
    let mut topic_deleted = false;
    for _ in 0..n_steps {
        // choose a delay: either small jitter or aimed at a boundary of a pending deadline
        let delay = if !marks.is_empty() && rng.chance(600) {
            let mark = *rng.pick(&marks);
            let target = match rng.below(7) {
                0 => mark.saturating_sub(1_000),
                1 => mark.saturating_sub(150_000),
                2 => mark.saturating_sub(rng.range(1, 99) * 1_000),
                3 => mark + SLACK_PROBE,
                4 => mark + SLACK_PROBE + rng.below(200_000),
                5 => mark + 2 * d_us,
                _ => mark + rng.below(1_200_000),
            };
            target.saturating_sub(now)
        } else {
            *rng.pick(&[0u64, 0, 1_000, 37_000, 100_000, 950_000, 3_000_000]) + rng.below(1_000)
        };
        now += delay;
        let op = match rng.below(if o.modacks { 12 } else { 9 }) {
            0 | 1 => Op::Publish { topic: topic.clone(), msgs: msgs_r(&mut rng, 1, 3, false) },
            2..=5 => {
                pulled_any = true;
                marks.push(now + d_us);
                let max = if o.limits { *rng.pick(&[1i32, 2, 1000, 1000]) } else { 1000 };
                Op::Pull { sub: sub.clone(), max, immediate: true }
            }
            6 => Op::Ack { sub: sub.clone(), sel: sel_any(rng.pick(&[Pick::LastN(1), Pick::Nth(0), Pick::Nth(1), Pick::LastResponse, Pick::OldestN(1)]).clone()) },
            7 => Op::Ack { sub: sub.clone(), sel: Sel { mine: false, pick: Pick::None, extra: vec![rng.pick(&["424242", "1", "3", "0"]).to_string()], ..Sel::none() } },
            8 => Op::Nop,
            9 | 10 => {
                // (with a slow server: short extensions, which a held-up request can outlive)
                let secs = if plan.knobs.long_stall_permille > 0 && rng.chance(600) { *rng.pick(&[1i32, 1, 2]) } else { *rng.pick(&[0i32, 0, 1, 5, 9, 10, 11, 30, 599, 600, 601, 100_000, i32::MAX]) };
                if secs > 0 {
                    marks.push(now + (secs.min(600) as u64) * 1_000_000);
                }
                Op::ModAck { sub: sub.clone(), sel: sel_any(rng.pick(&[Pick::LastN(1), Pick::Nth(0), Pick::LastResponse, Pick::All, Pick::Nth(2)]).clone()), secs }
            }
            _ if rng.chance(350) => {
                // a large batch: live ids first, then unknown filler ids, with or without one
                // malformed element at a drawn position (start / around the 1000th element / end)
                let filler = *rng.pick(&[5u32, 998, 999, 1000, 1001, 1500, 2100]);
                let bad_at = match rng.below(5) {
                    0 => None,
                    1 => Some(0),
                    2 => Some(filler / 2),
                    3 => Some(filler.min(1001)),
                    _ => Some(u32::MAX),
                };
                let secs = *rng.pick(&[0i32, 30, 600]);
                if bad_at.is_none() && secs > 0 {
                    marks.push(now + (secs.min(600) as u64) * 1_000_000);
                }
                Op::ModAck { sub: sub.clone(), sel: Sel { mine: false, pick: rng.pick(&[Pick::LastN(2), Pick::All, Pick::LastResponse]).clone(), filler, bad_at, ..Sel::none() }, secs }
            }
            _ => {
                // a request that must be rejected as a whole
                let bad = rng.chance(500);
                if bad {
                    Op::ModAck { sub: sub.clone(), sel: Sel { mine: false, pick: Pick::LastN(2), extra: vec!["not-a-number".into()], ..Sel::none() }, secs: 30 }
                } else {
                    Op::ModAck { sub: sub.clone(), sel: sel_any(Pick::LastN(2)), secs: *rng.pick(&[-1i32, i32::MIN, -600]) }
                }
            }
        };
        let mut st = Step::after(delay, op);
        // the client of a ModifyAckDeadline / Acknowledge may go away before it is answered: the
        // request then took effect or did not, and either way the lease rules keep holding
        if matches!(st.op, Op::ModAck { .. } | Op::Ack { .. }) && plan.knobs.site_mask != 0 && rng.chance(60) {
            st.abandon_at = rng.range(1, 2) as u32;
        }
        script.push(st);
        if marks.len() > 6 {
            marks.remove(0);
        }
        // the topic may disappear in the middle of a lease: the subscription keeps serving what it holds
        if pulled_any && !topic_deleted && rng.chance(25) {
            topic_deleted = true;
            script.push(Step::after(rng.below(500_000), Op::DeleteTopic { topic: topic.clone() }));
        }
    }
    if !pulled_any {
        script.push(Step::new(Op::Pull { sub: sub.clone(), max: 1000, immediate: true }));
        now += 0;
        marks.push(now + d_us);
    }
    // closing probes on both sides of the last deadline
    if let Some(mark) = marks.last().cloned() {
        let early = mark.saturating_sub(1_000);
        if early > now {
            script.push(Step::after(early - now, Op::Pull { sub: sub.clone(), max: 1000, immediate: true }));
            now = early;
        }
    }
    script.push(Step::after(rng.below(2_000_000), Op::Pull { sub: sub.clone(), max: 1000, immediate: true }));
    plan.phases.push(Phase { scripts: vec![script], advance_us: *rng.pick(&ADVANCES), audit: true });
    // a last sequential probe after the jump
    plan.phases.push(Phase { scripts: vec![vec![Step::new(Op::Pull { sub: sub.clone(), max: 1000, immediate: true })]], advance_us: 0, audit: false });
    plan
}

const SLACK_PROBE: u64 = 1_000_000;

// ------------------------------------------------------------------------------------------------
// F-consumers: competing waiting consumers on one subscription; availability by publish, nack, expiry.
// ------------------------------------------------------------------------------------------------

pub fn f_consumers(seed: u64, cancel: bool) -> Plan {
    let mut rng = Rng::new(seed);
    let mut plan = Plan { seed, family: "consumers".into(), final_drain: true, health_probe: true, ..Default::default() };
    plan.tags.push("double_audit".into());
    plan.knobs = knobs(&mut rng, false, 0);
    if plan.knobs.site_mask != 0 {
        plan.knobs.yield_permille = *rng.pick(&[300u32, 500, 700]);
        plan.knobs.max_yields = rng.range(1, 6) as u32;
    }
    let topic = topic_name("proj-c", 0);
    let sub = sub_name("proj-c", 0, 0);
    let dl = *rng.pick(&[10i32, 10, 12]);
    // (one run in twelve: the subscription has a push endpoint, but no push loop is running - Pull and
    // StreamingPull are served on it like on any other subscription)
    let push = if rng.chance(85) { Some(PushSpec { endpoint: "http://down.test/hook".into(), attrs: Default::default(), oidc: None }) } else { None };
    plan.phases.push(Phase {
        scripts: vec![vec![Step::new(Op::CreateTopic { topic: topic.clone() }), Step::new(Op::CreateSub { sub: sub.clone(), topic: topic.clone(), ack_deadline: dl, push })]],
        advance_us: rng.below(200_000),
        audit: false,
    });
    let mut slot = 1u32;
    let n_phases = rng.range(2, 5);
    for ph in 0..n_phases {
        let mut scripts: Vec<Vec<Step>> = Vec::new();
        // consumers that park
        let n_cons = rng.range(1, 5);
        for _ in 0..n_cons {
            let mut s = Vec::new();
            match rng.below(3) {
                0 | 1 => {
                    let my = slot;
                    slot += 1;
                    let mut park = Step::after(rng.below(3) * rng.below(2_000), Op::PullBg { slot: my, sub: sub.clone(), max: *rng.pick(&[1i32, 1, 2, 1000]) });
                    if cancel && rng.chance(300) {
                        // the consumer goes away at its k-th real suspension: waiting for the first
                        // answer, parked, or - after being woken - waiting for the answer to its next pull
                        park.abandon_at = *rng.pick(&[1u32, 2, 3, 3, 3, 4, 5]);
                    }
                    s.push(park);
                    if cancel && rng.chance(250) {
                        s.push(Step::after(rng.below(3) * rng.below(3_000), Op::CancelBg { slot: my }));
                    }
                }
                _ => {
                    let my = slot;
                    slot += 1;
                    let policy = if rng.chance(500) { StreamPolicy::Hold } else { StreamPolicy::AckAll };
                    s.push(Step::after(rng.below(3) * rng.below(2_000), Op::StreamOpen { slot: my, sub: sub.clone(), max_msgs: *rng.pick(&[0i64, 1, 2]), max_bytes: 0, policy, window: 0, stall_after: 0, stall_us: 0 }));
                    if rng.chance(350) {
                        // one frame mixing nacks and extensions for what this stream holds, some with
                        // an acknowledgement of another delivery and a stream deadline update on top
                        let ack = if rng.chance(400) { sel_mine(Pick::Nth(0)) } else { Sel::none() };
                        let stream_secs = *rng.pick(&[0i32, 0, 0, 10, 60, 600]);
                        s.push(Step::after(rng.range(1, 4) * 1_000, Op::StreamSend { slot: my, ack, modack: sel_mine(Pick::LastN(rng.range(2, 4) as u32)), modack_secs: 0, raw_sub: String::new(), raw_max_msgs: 0, raw_max_bytes: 0, extra_secs: vec![], secs_pattern: rng.pick(&[vec![0, 30], vec![30, 0], vec![0, 0, 20], vec![15, 0, 0], vec![30, 30], vec![25]]).clone(), stream_secs }));
                    } else if cancel && rng.chance(200) {
                        s.push(Step::after(rng.below(3) * rng.below(3_000), Op::StreamDrop { slot: my }));
                    }
                }
            }
            scripts.push(s);
        }
        // availability events, racing with the consumers' check-then-wait
        let n_ev = rng.range(1, 3);
        for _ in 0..n_ev {
            let mut s = Vec::new();
            match rng.below(4) {
                0 | 1 => {
                    for _ in 0..rng.range(1, 3) {
                        let mut p = Step::after(rng.below(3) * rng.below(2_500), Op::Publish { topic: topic.clone(), msgs: msgs_r(&mut rng, 1, 4, false) });
                        if cancel && rng.chance(150) {
                            p.abandon_at = rng.range(1, 4) as u32;
                        }
                        s.push(p);
                    }
                }
                2 => {
                    if ph > 0 {
                        let mut nack = Step::after(rng.below(3) * rng.below(2_500), Op::ModAck { sub: sub.clone(), sel: sel_any(Pick::LastN(rng.range(1, 3) as u32)), secs: 0 });
                        // the client that nacks may go away before it is answered; if the nack was
                        // applied, the waiting consumers must be woken all the same
                        if cancel && rng.chance(350) {
                            nack.abandon_at = rng.range(1, 3) as u32;
                        }
                        s.push(nack);
                    } else {
                        s.push(Step::after(rng.below(2_500), Op::Publish { topic: topic.clone(), msgs: msgs(&mut rng, 2, false) }));
                    }
                }
                _ => {
                    s.push(Step::after(rng.below(3) * rng.below(2_500), Op::Pull { sub: sub.clone(), max: 1, immediate: true }));
                }
            }
            scripts.push(s);
        }
        let advance = *rng.pick(&[0u64, 0, 500_000, (dl as u64) * 1_000_000 + 1_200_000, 13_000_000]);
        plan.phases.push(Phase { scripts, advance_us: advance, audit: true });
        // an empty phase after the jump so that the expiry wake-ups are audited at quiescence
        if advance > 5_000_000 {
            plan.phases.push(Phase { scripts: vec![], advance_us: 0, audit: true });
        }
    }
    plan
}

// ------------------------------------------------------------------------------------------------
// F-delete / F-burst: deletion against waiting consumers, bursts against one actor.
// ------------------------------------------------------------------------------------------------

pub fn f_delete(seed: u64, burst: bool) -> Plan {
    let mut rng = Rng::new(seed);
    let mut plan = Plan { seed, family: if burst { "burst" } else { "delete" }.into(), final_drain: false, health_probe: true, ..Default::default() };
    plan.knobs = knobs(&mut rng, false, 0);
    let topic = topic_name("proj-d", 0);
    let n_subs = rng.range(1, 2) as usize;
    // "fresh": the victim is created in the racing phase itself, so consumers and the delete can
    // find it between its registration and its attachment to the topic
    let fresh = !burst && rng.chance(200);
    // "pushy": the victim is a push subscription whose endpoint is slow, so a push round is in
    // flight (messages POSTed and not yet answered) when the delete arrives; consumers may wait on
    // it all the same
    let pushy = !burst && !fresh && rng.chance(140);
    if pushy {
        plan.knobs.push_interval_ms = *rng.pick(&[100u32, 100, 1000]);
        plan.tags.push("push".into());
        let slow = if rng.chance(300) { Behaviour::Never } else { Behaviour::Delay(rng.range(1, 9_000), *rng.pick(&[200u16, 200, 500])) };
        plan.endpoint = EndpointPlan { palette: vec![], fault_attempts: 0, script: vec![slow], after: None };
    }
    let mut setup = vec![Step::new(Op::CreateTopic { topic: topic.clone() })];
    for j in 0..n_subs {
        if fresh && j == 0 {
            continue;
        }
        let push = if pushy && j == 0 { Some(PushSpec { endpoint: "http://push-0.test/hook".into(), attrs: Default::default(), oidc: None }) } else { None };
        setup.push(Step::new(Op::CreateSub { sub: sub_name("proj-d", 0, j), topic: topic.clone(), ack_deadline: 10, push }));
    }
    if pushy || rng.chance(500) {
        setup.push(Step::new(Op::Publish { topic: topic.clone(), msgs: msgs_r(&mut rng, 1, 5, false) }));
    }
    plan.phases.push(Phase { scripts: vec![setup], advance_us: 0, audit: false });
    let victim = sub_name("proj-d", 0, 0);
    // waiting consumers
    let mut scripts = Vec::new();
    let mut slot = 1;
    for _ in 0..rng.range(0, 3) {
        let my = slot;
        slot += 1;
        // some streams have a small max_outstanding_messages and hold what they get; one in eight is
        // a slow client (its response pipe fills up and its handler is no longer polled)
        let slow = !burst && rng.chance(125);
        let mut s = vec![Step::after(
            rng.below(2_000),
            Op::StreamOpen {
                slot: my,
                sub: victim.clone(),
                max_msgs: *rng.pick(&[0i64, 0, 1, 2]),
                max_bytes: 0,
                policy: if rng.chance(500) { StreamPolicy::AckAll } else { StreamPolicy::Hold },
                window: if slow { rng.range(1, 2) as u32 } else { 0 },
                stall_after: 0,
                stall_us: if slow { 120_000_000 } else { 0 },
            },
        )];
        if rng.chance(500) {
            s.push(Step::after(rng.range(100, 3_000), Op::StreamCloseReq { slot: my }));
        }
        scripts.push(s);
    }
    for _ in 0..rng.range(0, 3) {
        let my = slot;
        slot += 1;
        scripts.push(vec![Step::after(rng.below(2_000), Op::PullBg { slot: my, sub: victim.clone(), max: 10 })]);
    }
    let late_consumers = if fresh { std::mem::take(&mut scripts) } else { Vec::new() };
    plan.phases.push(Phase { scripts, advance_us: rng.below(2_000_000), audit: false });
    // sometimes the topic goes first: the subscription is then an orphan when it is deleted
    if !burst && !fresh && rng.chance(250) {
        plan.phases.push(Phase { scripts: vec![vec![Step::new(Op::DeleteTopic { topic: topic.clone() })]], advance_us: rng.below(500_000), audit: true });
    }
    // the delete, racing with other requests
    let mut scripts: Vec<Vec<Step>> = Vec::new();
    if fresh {
        scripts.push(vec![Step::after(rng.below(300), Op::CreateSub { sub: victim.clone(), topic: topic.clone(), ack_deadline: 10, push: None })]);
        for mut c in late_consumers {
            for st in c.iter_mut() {
                st.delay_us = rng.below(3) * rng.below(400);
            }
            scripts.push(c);
        }
    }
    // the topic may be deleted at the same time as the subscription
    let topic_racer = !burst && !fresh && rng.chance(200);
    if topic_racer {
        scripts.push(vec![Step::after(rng.below(3) * rng.below(500), Op::DeleteTopic { topic: topic.clone() })]);
    }
    let n_racers = if burst { rng.range(10, 40) } else { rng.range(0, 6) };
    let delete_pos = rng.below(n_racers + 1);
    for i in 0..=n_racers {
        if i == delete_pos {
            let mut st = Step::after(if fresh { rng.below(800) } else { rng.below(3) * rng.below(500) }, Op::DeleteSub { sub: victim.clone() });
            // the client that asked for the deletion may itself go away while it is being processed
            if !burst && rng.chance(350) {
                st.abandon_at = rng.range(1, 4) as u32;
            }
            scripts.push(vec![st]);
            continue;
        }
        let target = if n_subs > 1 && rng.chance(200) { sub_name("proj-d", 0, 1) } else { victim.clone() };
        let op = match rng.below(8) {
            0 | 1 => Op::Pull { sub: target, max: 10, immediate: true },
            2 => Op::Ack { sub: target, sel: sel_any(Pick::LastN(2)) },
            3 => Op::ModAck { sub: target, sel: sel_any(Pick::LastN(2)), secs: *rng.pick(&[0i32, 20]) },
            4 => Op::GetSub { sub: target },
            5 | 6 => Op::Publish { topic: topic.clone(), msgs: msgs_r(&mut rng, 1, 3, false) },
            _ => Op::Walk { kind: ListKind::TopicSubs, parent: topic.clone(), page_size: 10 },
        };
        scripts.push(vec![Step::after(rng.below(3) * rng.below(500), op)]);
    }
    plan.phases.push(Phase { scripts, advance_us: 0, audit: true });
    let mut tail = vec![Step::new(Op::GetSub { sub: victim.clone() })];
    if !burst && rng.chance(500) {
        // the client repeats its DeleteSubscription (whatever the first answer was): it must be
        // told NOT_FOUND, or delete the subscription now and release whoever still waits on it
        tail.push(Step::new(Op::DeleteSub { sub: victim.clone() }));
        tail.push(Step::new(Op::GetSub { sub: victim.clone() }));
    }
    tail.push(Step::new(Op::Publish { topic: topic.clone(), msgs: msgs(&mut rng, 1, false) }));
    plan.phases.push(Phase { scripts: vec![tail], advance_us: 0, audit: true });
    if !burst {
        plan.phases.push(Phase { scripts: vec![], advance_us: 0, audit: true });
    }
    plan
}

// ------------------------------------------------------------------------------------------------
// F-push: push subscriptions against the scripted endpoint.
// ------------------------------------------------------------------------------------------------

pub fn f_push(seed: u64, exhaustive_scripts: bool) -> Plan {
    let mut rng = Rng::new(seed);
    let interval = *rng.pick(&[100u32, 1000, 5000]);
    let mut plan = Plan { seed, family: "push".into(), final_drain: false, health_probe: true, ..Default::default() };
    plan.tags.push("push".into());
    plan.knobs = knobs(&mut rng, false, interval);
    let topic = topic_name("proj-p", 0);
    let n_push = rng.range(1, 3) as usize;
    let dl = *rng.pick(&[10i32, 10, 12, 20, 30, 60]);
    let mut setup = vec![Step::new(Op::CreateTopic { topic: topic.clone() })];
    let mut push_subs = Vec::new();
    for j in 0..n_push {
        let name = sub_name("proj-p", 0, j);
        let mut attrs = std::collections::BTreeMap::new();
        if rng.chance(300) {
            attrs.insert("x-goog-version".to_string(), "v1".to_string());
        }
        let mut create = Step::new(Op::CreateSub {
            sub: name.clone(),
            topic: topic.clone(),
            ack_deadline: dl,
            push: Some(PushSpec { endpoint: format!("http://push-{j}.test/hook"), attrs, oidc: if rng.chance(200) { Some(("aud".into(), "sa@example.test".into())) } else { None } }),
        });
        // the client that creates the push subscription may go away before it is answered; if the
        // subscription exists afterwards (the GetSubscription tells), it is a push subscription like any other
        let abandoned = rng.chance(120);
        if abandoned {
            create.abandon_at = rng.range(1, 3) as u32;
        }
        setup.push(create);
        if abandoned {
            setup.push(Step::after(rng.below(2_000), Op::GetSub { sub: name.clone() }));
        }
        push_subs.push(name);
    }
    // pull subscriptions on the same topic as controls (must never be POSTed to)
    let n_pull = rng.range(0, 2) as usize;
    for j in 0..n_pull {
        setup.push(Step::new(Op::CreateSub { sub: sub_name("proj-p", 0, 10 + j), topic: topic.clone(), ack_deadline: 10, push: None }));
    }
    plan.phases.push(Phase { scripts: vec![setup], advance_us: rng.below(900_000), audit: false });
    // endpoint behaviour
    let all: Vec<Behaviour> = vec![
        Behaviour::Status(102),
        Behaviour::Status(200),
        Behaviour::Status(201),
        Behaviour::Status(202),
        Behaviour::Status(204),
        Behaviour::Status(100),
        Behaviour::Status(203),
        Behaviour::Status(205),
        Behaviour::Status(301),
        Behaviour::Status(400),
        Behaviour::Status(404),
        Behaviour::Status(429),
        Behaviour::Status(500),
        Behaviour::Status(503),
        Behaviour::ConnErr,
        Behaviour::Delay(rng.range(1, 900), 200),
        Behaviour::Delay(rng.range(1, 900), 500),
        Behaviour::Delay((dl as u64) * 1000 + rng.range(200, 3000), 200),
        // an answer that is slow but still inside a longer-than-default lease
        Behaviour::Delay(if dl > 11 { rng.range(10_300, (dl as u64) * 1000 - 400) } else { rng.range(1_000, 9_000) }, 200),
        Behaviour::Never,
        // an answer that arrives at the very instant the lease of the POSTed delivery runs out
        Behaviour::Delay(((dl as u64) * 1000).saturating_add_signed(*rng.pick(&[0i64, 0, -1, 1])), *rng.pick(&[200u16, 200, 500])),
    ];
    if exhaustive_scripts {
        // one explicit per-attempt script of length 1..3 over the 8 behaviour classes
        let classes: Vec<Behaviour> = vec![
            Behaviour::Status(*rng.pick(&[102u16, 200, 201, 202, 204])),
            Behaviour::Status(*rng.pick(&[100u16, 101, 203, 205, 206])),
            Behaviour::Status(*rng.pick(&[300u16, 301, 304])),
            Behaviour::Status(*rng.pick(&[400u16, 404, 429])),
            Behaviour::Status(*rng.pick(&[500u16, 502, 503])),
            Behaviour::ConnErr,
            Behaviour::Delay(rng.range(1, 900), *rng.pick(&[200u16, 500])),
            if rng.chance(500) { Behaviour::Never } else { Behaviour::Delay((dl as u64) * 1000 + rng.range(200, 3000), 200) },
        ];
        let len = rng.range(1, 3);
        let script: Vec<Behaviour> = (0..len).map(|_| rng.pick(&classes).clone()).collect();
        plan.endpoint = EndpointPlan { palette: vec![], fault_attempts: 0, script, after: None };
    } else {
        let k = rng.range(2, 6) as usize;
        let palette: Vec<Behaviour> = (0..k).map(|_| rng.pick(&all).clone()).collect();
        plan.endpoint = EndpointPlan { palette, fault_attempts: rng.range(0, 4) as u32, script: vec![], after: None };
    }
    // publish phases with clock jumps across rounds and leases
    let n_msgs_total = if exhaustive_scripts { rng.range(1, 2) } else { rng.range(1, 20) };
    let mut left = n_msgs_total;
    let n_phases = rng.range(1, 3);
    let mut deleted: Option<String> = None;
    let mut topic_deleted = false;
    for ph in 0..n_phases {
        let mut scripts = Vec::new();
        let n = if ph + 1 == n_phases { left } else { rng.range(0, left) };
        left -= n;
        if n > 0 {
            scripts.push(vec![Step::after(rng.below(200_000), Op::Publish { topic: topic.clone(), msgs: msgs(&mut rng, n as usize, true) })]);
        }
        if !exhaustive_scripts && ph == 0 && rng.chance(50) {
            // a page of 70-260 messages to an endpoint that answers none of them: their leases run
            // out at one and the same instant, which is also the instant of a later round's pull
            plan.endpoint = EndpointPlan { palette: vec![Behaviour::Never], fault_attempts: 1, script: vec![], after: None };
            scripts.push(vec![Step::after(rng.below(50_000), Op::PublishMany { topic: topic.clone(), count: rng.range(70, 260) as u32 })]);
        }
        if !exhaustive_scripts && deleted.is_none() && rng.chance(120) {
            // the subscription is deleted while a push round is working through a page of messages
            // (the POSTs of one round start 5 ms apart when the endpoint is slow)
            let victim = rng.pick(&push_subs).clone();
            deleted = Some(victim.clone());
            let bulk = rng.range(8, 30) as usize;
            scripts.push(vec![
                Step::after(rng.below(100_000), Op::Publish { topic: topic.clone(), msgs: msgs(&mut rng, bulk, false) }),
                Step::new(Op::SleepUntilMultiple { period_us: interval as u64 * 1000, offset_us: rng.range(1, 12) * 5_000 + rng.below(5_000) }),
                Step::new(Op::DeleteSub { sub: victim.clone() }),
            ]);
        }
        if !exhaustive_scripts && deleted.is_none() && rng.chance(150) {
            let victim = rng.pick(&push_subs).clone();
            deleted = Some(victim.clone());
            let delete_at = rng.below(3_000_000);
            let mut s = vec![Step::after(delete_at, Op::DeleteSub { sub: victim.clone() })];
            if rng.chance(600) {
                // re-created under the same name right away (inside one push interval) or a little later
                let j: usize = victim.rsplit('-').next().and_then(|x| x.parse().ok()).unwrap_or(0);
                let create = Op::CreateSub { sub: victim.clone(), topic: topic.clone(), ack_deadline: dl, push: Some(PushSpec { endpoint: format!("http://push-{j}.test/hook"), attrs: Default::default(), oidc: None }) };
                if rng.chance(350) {
                    // ... or by another client while the delete is still being processed (a create
                    // that comes too early is answered ALREADY_EXISTS and tries once more)
                    // (the delete is slow here: stalls of a few ms at its schedule points)
                    plan.knobs.site_mask = u64::MAX;
                    plan.knobs.stall_permille = *rng.pick(&[200u32, 400]);
                    plan.knobs.stall_max_us = *rng.pick(&[3_000u64, 8_000]);
                    scripts.push(vec![
                        Step::after(delete_at + rng.below(3) * rng.below(4_000), create.clone()),
                        Step::after(rng.range(500, 3_000), create.clone()),
                        Step::after(rng.range(500, 3_000), create.clone()),
                        Step::after(rng.range(500, 20_000), create),
                        Step::after(rng.below(100_000), Op::Publish { topic: topic.clone(), msgs: msgs_r(&mut rng, 1, 2, false) }),
                    ]);
                } else {
                    s.push(Step::after(*rng.pick(&[0u64, 1_000, 50_000, 2_000_000]), create));
                    s.push(Step::after(rng.below(100_000), Op::Publish { topic: topic.clone(), msgs: msgs_r(&mut rng, 1, 2, false) }));
                }
            }
            scripts.push(s);
        }
        // the topic may be deleted while the push subscriptions still hold (rejected or fresh) messages
        if !exhaustive_scripts && !topic_deleted && ph + 1 == n_phases && rng.chance(200) {
            topic_deleted = true;
            scripts.push(vec![Step::after(rng.range(50_000, 3_000_000), Op::DeleteTopic { topic: topic.clone() })]);
        }
        if n_pull > 0 && rng.chance(120) {
            // a CreateSubscription with a push endpoint for the name of an existing pull subscription:
            // rejected (ALREADY_EXISTS), and the pull subscription stays a pull subscription
            scripts.push(vec![Step::after(rng.below(100_000), Op::CreateSub { sub: sub_name("proj-p", 0, 10), topic: topic.clone(), ack_deadline: dl, push: Some(PushSpec { endpoint: "http://push-9.test/hook".into(), attrs: Default::default(), oidc: None }) })]);
        }
        if n_pull > 0 && rng.chance(500) {
            scripts.push(vec![Step::after(rng.below(500_000), Op::Pull { sub: sub_name("proj-p", 0, 10), max: 100, immediate: true }), Step::new(Op::Ack { sub: sub_name("proj-p", 0, 10), sel: sel_mine(Pick::LastResponse) })]);
        }
        let advance = *rng.pick(&[interval as u64 * 1000 + 50_000, 2 * interval as u64 * 1000, (dl as u64) * 1_000_000 + 1_500_000, 3_000_000, 30_000_000]);
        plan.phases.push(Phase { scripts, advance_us: advance, audit: true });
    }
    // faults off, then wait long enough for every unaccepted message to be POSTed and accepted
    plan.phases.push(Phase { scripts: vec![vec![Step::new(Op::EndpointFaultsOff)]], advance_us: interval as u64 * 1000 + (dl as u64) * 1_000_000 + 4_000_000, audit: true });
    plan.phases.push(Phase { scripts: vec![], advance_us: interval as u64 * 1000 * 2 + 1_000_000, audit: true });
    plan
}

// ------------------------------------------------------------------------------------------------
// F-listing: build a resource set through a create/delete history, then walk the List RPCs.
// ------------------------------------------------------------------------------------------------

pub fn f_listing(seed: u64, big: bool) -> Plan {
    let mut rng = Rng::new(seed);
    let mut plan = Plan { seed, family: "listing".into(), final_drain: false, health_probe: false, ..Default::default() };
    if !big {
        plan.tags.push("audit_lists".into());
    }
    plan.knobs = knobs(&mut rng, false, 0);
    // project ids that are prefixes of one another (a filter by prefix would leak across projects)
    let project_names = ["proj-list-0", "proj-list", "proj-list-00"];
    let projects: Vec<String> = (0..if big { 1 } else { rng.range(1, 3) }).map(|i| project_names[i as usize].to_string()).collect();
    let n_topics = if big { rng.range(990, 1030) } else { *rng.pick(&[0u64, 1, 2, 3, 5, 19, 20, 21, 22, 40, 41]) } as usize;
    let n_subs = if big { rng.range(0, 30) } else { *rng.pick(&[0u64, 1, 2, 5, 19, 20, 21, 30]) } as usize;
    let mut topics: Vec<String> = Vec::new();
    let mut creator: Vec<Step> = Vec::new();
    for i in 0..n_topics {
        let p = rng.pick(&projects).clone();
        let t = format!("projects/{p}/topics/t-{i}");
        creator.push(Step::new(Op::CreateTopic { topic: t.clone() }));
        topics.push(t);
    }
    let mut subs: Vec<(String, String)> = Vec::new();
    if !topics.is_empty() {
        // most subscriptions on few topics so that ListTopicSubscriptions has something to page
        let hot: Vec<String> = (0..rng.range(1, 2)).map(|_| rng.pick(&topics).clone()).collect();
        for j in 0..n_subs {
            let t = if rng.chance(800) { rng.pick(&hot).clone() } else { rng.pick(&topics).clone() };
            let p = project_of_name(&t);
            let s = format!("projects/{p}/subscriptions/s-{j}");
            creator.push(Step::new(Op::CreateSub { sub: s.clone(), topic: t.clone(), ack_deadline: 10, push: None }));
            subs.push((s, t));
        }
    }
    // deletions in drawn order (then the order of the survivors is what matters)
    let mut deleter: Vec<Step> = Vec::new();
    let mut gone_topics: Vec<String> = Vec::new();
    let mut deleted_subs: Vec<String> = Vec::new();
    for (s, _t) in subs.iter() {
        if rng.chance(200) {
            deleted_subs.push(s.clone());
            let mut st = Step::new(Op::DeleteSub { sub: s.clone() });
            // some deletes are abandoned by their client half-way
            if !big && rng.chance(250) {
                st.abandon_at = rng.range(1, 3) as u32;
            }
            deleter.push(st);
        }
    }
    for t in topics.iter() {
        if rng.chance(if big { 20 } else { 150 }) {
            deleter.push(Step::new(Op::DeleteTopic { topic: t.clone() }));
            gone_topics.push(t.clone());
        }
    }
    // a few re-creations under the same name (they move to the end of creation order)
    let mut recreate: Vec<Step> = Vec::new();
    for t in gone_topics.iter() {
        if rng.chance(400) {
            recreate.push(Step::new(Op::CreateTopic { topic: t.clone() }));
        }
    }
    // concurrent creators in some plans: split the creator script in two
    if rng.chance(300) && creator.len() > 4 && !big {
        let half = creator.len() / 2;
        // only topics in the first half may be split off safely (subs need their topic first)
        let second: Vec<Step> = creator.split_off(half);
        plan.phases.push(Phase { scripts: vec![creator], advance_us: 0, audit: false });
        let (a, b): (Vec<Step>, Vec<Step>) = second.into_iter().enumerate().fold((vec![], vec![]), |mut acc, (i, s)| {
            if i % 2 == 0 {
                acc.0.push(s)
            } else {
                acc.1.push(s)
            }
            acc
        });
        plan.phases.push(Phase { scripts: vec![a, b], advance_us: 0, audit: false });
    } else {
        plan.phases.push(Phase { scripts: vec![creator], advance_us: 0, audit: false });
    }
    plan.phases.push(Phase { scripts: vec![deleter], advance_us: 0, audit: !big });
    plan.phases.push(Phase { scripts: vec![recreate], advance_us: 0, audit: false });
    // churn: a listing, then as many deletions as creations under the same parent (the number of
    // entries is the same afterwards, the entries are not), before the walks below
    if !big && rng.chance(400) {
        let mut churn: Vec<Step> = Vec::new();
        if let Some((_, t)) = subs.first().cloned() {
            if !gone_topics.contains(&t) {
                let p = project_of_name(&t);
                churn.push(Step::new(Op::Walk { kind: ListKind::TopicSubs, parent: t.clone(), page_size: *rng.pick(&[1i32, 2, 1000]) }));
                if rng.chance(500) {
                    churn.push(Step::new(Op::Walk { kind: ListKind::Subs, parent: format!("projects/{p}"), page_size: *rng.pick(&[1i32, 20, 1000]) }));
                }
                let alive: Vec<String> = subs.iter().filter(|(s, st)| *st == t && !deleted_subs.contains(s)).map(|(s, _)| s.clone()).collect();
                let k = (rng.range(1, 3) as usize).min(alive.len());
                for (i, victim) in alive.iter().take(k).enumerate() {
                    churn.push(Step::new(Op::DeleteSub { sub: victim.clone() }));
                    churn.push(Step::new(Op::CreateSub { sub: format!("projects/{p}/subscriptions/s-new-{i}"), topic: t.clone(), ack_deadline: 10, push: None }));
                }
            }
        }
        if rng.chance(300) && topics.len() >= 2 {
            let t = topics[topics.len() - 1].clone();
            if !gone_topics.contains(&t) && subs.first().map(|x| x.1 != t).unwrap_or(true) {
                let p = project_of_name(&t);
                churn.push(Step::new(Op::Walk { kind: ListKind::Topics, parent: format!("projects/{p}"), page_size: *rng.pick(&[1i32, 20, 1000]) }));
                churn.push(Step::new(Op::DeleteTopic { topic: t.clone() }));
                churn.push(Step::new(Op::CreateTopic { topic: format!("projects/{p}/topics/t-new") }));
            }
        }
        plan.phases.push(Phase { scripts: vec![churn], advance_us: 0, audit: false });
    }
    // the walks, with background data-plane traffic on the same topic actors
    let sizes: Vec<i32> = vec![-1, i32::MIN, 0, 1, 2, 19, 20, 21, 999, 1000, 1001, i32::MAX, n_topics as i32 - 1, n_topics as i32, n_topics as i32 + 1, n_subs.max(1) as i32];
    let mut walker: Vec<Step> = Vec::new();
    let n_walks = if big { 3 } else { rng.range(3, 8) };
    for _ in 0..n_walks {
        let size = *rng.pick(&sizes);
        let size = if big { *rng.pick(&[1000i32, 1001, 1001, 5000, i32::MAX, n_topics as i32 + 1]) } else { size };
        match rng.below(3) {
            0 => walker.push(Step::new(Op::Walk { kind: ListKind::Topics, parent: format!("projects/{}", rng.pick(&projects)), page_size: size })),
            1 => walker.push(Step::new(Op::Walk { kind: ListKind::Subs, parent: format!("projects/{}", rng.pick(&projects)), page_size: size })),
            _ => {
                if let Some((_, t)) = subs.first() {
                    let t = if rng.chance(700) { t.clone() } else { rng.pick(&topics).clone() };
                    walker.push(Step::new(Op::Walk { kind: ListKind::TopicSubs, parent: t, page_size: size }));
                } else if !topics.is_empty() {
                    walker.push(Step::new(Op::Walk { kind: ListKind::TopicSubs, parent: rng.pick(&topics).clone(), page_size: size }));
                }
            }
        }
    }
    // forged / hostile tokens
    let tokens: Vec<String> = {
        use base64::Engine;
        let enc = |v: u64| base64::engine::general_purpose::STANDARD.encode(v.to_ne_bytes());
        vec![
            enc(0),
            enc(1),
            enc(rng.below(50)),
            enc(n_topics as u64),
            enc(n_topics as u64 + 1),
            enc(u64::MAX),
            enc(u64::MAX - 1),
            enc(1 << 40),
            "!!!not-base64!!!".to_string(),
            "AAAA".to_string(),
            base64::engine::general_purpose::STANDARD.encode([1u8, 2, 3, 4, 5, 6, 7, 8, 9]),
            base64::engine::general_purpose::STANDARD.encode(rng.next().to_ne_bytes()),
            "AAAAAAAAAAA".to_string(),
            " ".to_string(),
            "ÅÄÖ".to_string(),
        ]
    };
    for _ in 0..rng.range(2, 6) {
        let kind = match rng.below(3) {
            0 => ListKind::Topics,
            1 => ListKind::Subs,
            _ => ListKind::TopicSubs,
        };
        let parent = match kind {
            ListKind::TopicSubs => {
                if topics.is_empty() {
                    continue;
                }
                subs.first().map(|x| x.1.clone()).unwrap_or_else(|| topics[0].clone())
            }
            _ => format!("projects/{}", rng.pick(&projects)),
        };
        walker.push(Step::new(Op::ListPage { kind, parent, page_size: *rng.pick(&[0i32, 1, 5, 20, 1000, 5000, -3]), token: rng.pick(&tokens).clone() }));
    }
    let mut scripts = vec![walker];
    if !subs.is_empty() && rng.chance(600) {
        let (s, t) = subs[0].clone();
        let mut traffic = Vec::new();
        for _ in 0..rng.range(2, 10) {
            traffic.push(Step::new(Op::Publish { topic: t.clone(), msgs: msgs(&mut rng, 2, false) }));
            traffic.push(Step::new(Op::Pull { sub: s.clone(), max: 10, immediate: true }));
        }
        scripts.push(traffic);
    }
    plan.phases.push(Phase { scripts, advance_us: 0, audit: false });
    plan
}

fn project_of_name(name: &str) -> String {
    name.strip_prefix("projects/").and_then(|r| r.split('/').next()).unwrap_or("").to_string()
}

// ------------------------------------------------------------------------------------------------
// F-names: concurrent create/get/list/delete (+ data plane) over a small pool of names.
// ------------------------------------------------------------------------------------------------

pub fn f_names(seed: u64, contention: u64, abandon: bool) -> Plan {
    let mut rng = Rng::new(seed);
    let mut plan = Plan { seed, family: "names".into(), final_drain: true, health_probe: true, ..Default::default() };
    plan.tags.push("names".into());
    plan.tags.push("audit_lists".into());
    plan.knobs = knobs(&mut rng, true, 0);
    let projects = ["proj-n", "proj-m"];
    let n_t = rng.range(2, 3) as usize;
    let n_s = rng.range(2, 3) as usize;
    let topic_pool: Vec<String> = (0..n_t).map(|i| format!("projects/{}/topics/pool-topic-{}", projects[i % 2], i)).collect();
    let sub_pool: Vec<String> = (0..n_s).map(|i| format!("projects/{}/subscriptions/pool-sub-{}", projects[i % 2], i)).collect();
    // every CreateSubscription asks for its own ack deadline, so that the instance a read saw is identifiable
    let mut next_deadline = 11i32;
    let n_phases = rng.range(1, 4);
    for _ in 0..n_phases {
        let n_clients = if contention == 0 { 1 } else { rng.range(2, 2 + contention.min(4)) };
        let mut scripts = Vec::new();
        for _ in 0..n_clients {
            let mut s = Vec::new();
            for _ in 0..rng.range(2, 7) {
                let t = rng.pick(&topic_pool).clone();
                let sub = rng.pick(&sub_pool).clone();
                let op = match rng.below(20) {
                    0..=2 => Op::CreateTopic { topic: t },
                    3 | 4 => Op::DeleteTopic { topic: t },
                    5 => Op::GetTopic { topic: t },
                    6..=8 => {
                        let dl = next_deadline;
                        next_deadline += 1;
                        let push = if rng.chance(150) { Some(PushSpec { endpoint: " http://names.test/push ".into(), attrs: [("k".to_string(), "v".to_string())].into_iter().collect(), oidc: Some(("a".into(), "e@x.test".into())) }) } else { None };
                        Op::CreateSub { sub, topic: t, ack_deadline: dl, push }
                    }
                    9 | 10 => Op::DeleteSub { sub },
                    11 | 12 => Op::GetSub { sub },
                    13 => Op::Publish { topic: t, msgs: msgs(&mut rng, 1, false) },
                    14 => Op::Pull { sub, max: 10, immediate: true },
                    15 => {
                        // (a third of them with an empty ID list: the name is still looked up)
                        if rng.chance(330) {
                            if rng.chance(500) { Op::Ack { sub, sel: Sel::none() } } else { Op::ModAck { sub, sel: Sel::none(), secs: 15 } }
                        } else {
                            Op::Ack { sub, sel: Sel { mine: false, pick: Pick::LastN(1), extra: vec!["77".into()], ..Sel::none() } }
                        }
                    }
                    16 => Op::ModAck { sub, sel: Sel { mine: false, pick: Pick::LastN(1), extra: vec!["78".into()], ..Sel::none() }, secs: 15 },
                    17 => Op::ListPage { kind: ListKind::Topics, parent: format!("projects/{}", rng.pick(&projects)), page_size: 1000, token: String::new() },
                    18 => Op::ListPage { kind: ListKind::Subs, parent: format!("projects/{}", rng.pick(&projects)), page_size: 1000, token: String::new() },
                    _ => Op::Walk { kind: ListKind::TopicSubs, parent: t, page_size: 1000 },
                };
                let mut st = Step::after(rng.below(3) * rng.below(300), op);
                if abandon && plan.knobs.site_mask != 0 && rng.chance(40) {
                    st.abandon_at = rng.range(1, 3) as u32;
                }
                s.push(st);
            }
            scripts.push(s);
        }
        plan.phases.push(Phase { scripts, advance_us: *rng.pick(&[0u64, 0, 1_000_000, 11_000_000]), audit: true });
    }
    plan
}

// ------------------------------------------------------------------------------------------------
// F-cancel: every request kind dropped at its k-th real suspension, empty / saturated mailboxes.
// ------------------------------------------------------------------------------------------------

pub const CANCEL_KINDS: u64 = 14;

pub fn f_cancel(seed: u64) -> Plan {
    let mut rng = Rng::new(seed);
    let mut plan = Plan { seed, family: "cancel".into(), final_drain: true, health_probe: true, ..Default::default() };
    plan.tags.push("cancel".into());
    plan.tags.push("audit_lists".into());
    // stalls on: an actor that is slow for a few ms keeps a mailbox full / a fan-out half done
    // long enough for a client to disconnect in the middle of it
    plan.knobs = knobs(&mut rng, true, 0);
    let kind = rng.below(CANCEL_KINDS);
    let k = *rng.pick(&[1u32, 1, 1, 1, 1, 1, 2, 2, 2, 2, 3, 3, 3, 4, 5, 6]);
    let saturated = rng.chance(500);
    plan.tags.push(format!("cancel_point:{kind}:{k}:{}", if saturated { "sat" } else { "idle" }));
    let topic = topic_name("proj-x", 0);
    let sub = sub_name("proj-x", 0, 0);
    let other = sub_name("proj-x", 0, 1);
    let fresh_topic = topic_name("proj-x", 7);
    let fresh_sub = sub_name("proj-x", 0, 7);
    // prefix workload
    let mut setup = vec![
        Step::new(Op::CreateTopic { topic: topic.clone() }),
        Step::new(Op::CreateSub { sub: sub.clone(), topic: topic.clone(), ack_deadline: 10, push: None }),
        Step::new(Op::CreateSub { sub: other.clone(), topic: topic.clone(), ack_deadline: 10, push: None }),
    ];
    setup.push(Step::new(Op::Publish { topic: topic.clone(), msgs: msgs_r(&mut rng, 1, 4, false) }));
    if rng.chance(600) {
        setup.push(Step::new(Op::Pull { sub: sub.clone(), max: 2, immediate: true }));
    }
    plan.phases.push(Phase { scripts: vec![setup], advance_us: rng.below(500_000), audit: false });
    // consumers waiting on the subscription whose delete (or whose topic's delete) is abandoned: if
    // the delete was applied they are released, if not they keep being served
    if matches!(kind, 1 | 4) && rng.chance(400) {
        let mut waiting = Vec::new();
        for i in 0..rng.range(1, 2) {
            let op = if rng.chance(500) {
                Op::StreamOpen { slot: 50 + i as u32, sub: sub.clone(), max_msgs: 0, max_bytes: 0, policy: StreamPolicy::AckAll, window: 0, stall_after: 0, stall_us: 0 }
            } else {
                Op::PullBg { slot: 50 + i as u32, sub: sub.clone(), max: 10 }
            };
            waiting.push(vec![Step::after(rng.below(2_000), op)]);
        }
        // the backlog must be empty for them to park
        waiting.push(vec![Step::new(Op::Pull { sub: sub.clone(), max: 100, immediate: true }), Step::new(Op::Ack { sub: sub.clone(), sel: sel_mine(Pick::LastResponse) })]);
        plan.phases.push(Phase { scripts: waiting, advance_us: rng.below(200_000), audit: false });
    }
    // the target request
    let target_op = match kind {
        0 => Op::CreateTopic { topic: fresh_topic.clone() },
        1 => Op::DeleteTopic { topic: topic.clone() },
        2 => Op::GetTopic { topic: topic.clone() },
        3 => Op::CreateSub { sub: fresh_sub.clone(), topic: topic.clone(), ack_deadline: 10, push: if rng.chance(300) { Some(PushSpec { endpoint: "http://cancel.test/".into(), attrs: Default::default(), oidc: None }) } else { None } },
        4 => Op::DeleteSub { sub: sub.clone() },
        5 => Op::GetSub { sub: sub.clone() },
        6 => Op::Publish { topic: topic.clone(), msgs: msgs_r(&mut rng, 1, 5, false) },
        7 => Op::Pull { sub: sub.clone(), max: 10, immediate: true },
        8 => Op::Pull { sub: sub.clone(), max: 10, immediate: false },
        9 => Op::Ack { sub: sub.clone(), sel: sel_any(Pick::All) },
        10 => Op::ModAck { sub: sub.clone(), sel: sel_any(Pick::All), secs: *rng.pick(&[0i32, 30]) },
        11 => Op::Walk { kind: ListKind::TopicSubs, parent: topic.clone(), page_size: 10 },
        12 => Op::ListPage { kind: ListKind::Subs, parent: "projects/proj-x".into(), page_size: 100, token: String::new() },
        _ => Op::ListPage { kind: ListKind::Topics, parent: "projects/proj-x".into(), page_size: 100, token: String::new() },
    };
    let mut scripts: Vec<Vec<Step>> = Vec::new();
    let mut target = Step::after(rng.below(3) * rng.below(200), target_op);
    if rng.chance(700) {
        target.abandon_at = k;
    } else {
        // the client disconnects a few (virtual) ms into the request, wherever it is waiting then
        target.abandon_after_us = rng.range(1, 6) * 1_000;
    }
    // saturation: a burst at the actor the target talks to (topic actor for topic-side requests)
    if saturated {
        let n = rng.range(17, 30);
        let topic_side = matches!(kind, 1 | 3 | 11) || (kind == 6 && rng.chance(400));
        for _ in 0..n {
            let op = if topic_side {
                match rng.below(3) {
                    0 => Op::Publish { topic: topic.clone(), msgs: msgs(&mut rng, 1, false) },
                    1 => Op::Walk { kind: ListKind::TopicSubs, parent: topic.clone(), page_size: 1000 },
                    _ => Op::Publish { topic: topic.clone(), msgs: msgs(&mut rng, 2, false) },
                }
            } else {
                match rng.below(3) {
                    0 => Op::GetSub { sub: sub.clone() },
                    1 => Op::Pull { sub: sub.clone(), max: 1, immediate: true },
                    _ => Op::ModAck { sub: sub.clone(), sel: Sel { mine: false, pick: Pick::None, extra: vec!["4242".into()], ..Sel::none() }, secs: 10 },
                }
            };
            scripts.push(vec![Step::new(op)]);
        }
        target.delay_us = 0;
    } else {
        for _ in 0..rng.range(0, 3) {
            scripts.push(vec![Step::after(rng.below(300), Op::Publish { topic: topic.clone(), msgs: msgs(&mut rng, 1, false) })]);
        }
    }
    // A Publish that is abandoned in the middle of its fan-out: one subscription's mailbox is
    // saturated and its actor is slow, so the fan-out is half done for a few ms; the publisher
    // disconnects inside that window.
    if kind == 6 && saturated && rng.chance(500) {
        plan.knobs.site_mask = ALL_SITES;
        plan.knobs.stall_permille = *rng.pick(&[150u32, 300]);
        plan.knobs.stall_max_us = 8_000;
        plan.knobs.yield_permille = plan.knobs.yield_permille.max(150);
        plan.knobs.max_yields = plan.knobs.max_yields.max(1);
        target.abandon_at = 0;
        target.abandon_after_us = rng.range(1, 8) * 1_000;
    }
    // the abandoned delete of the subscription may race a delete of its topic, and the other way
    // round: afterwards the subscription is gone, or it is there and can be deleted
    let delete_race = matches!(kind, 1 | 4) && rng.chance(350);
    if delete_race {
        let racer = if kind == 4 { Op::DeleteTopic { topic: topic.clone() } } else { Op::DeleteSub { sub: sub.clone() } };
        scripts.push(vec![Step::after(rng.below(3) * rng.below(300), racer)]);
    }
    let pos = rng.below(scripts.len() as u64 + 1) as usize;
    scripts.insert(pos, vec![target]);
    plan.phases.push(Phase { scripts, advance_us: rng.below(300_000), audit: true });
    // after the drop: publish to the topic, pull both subscriptions, audit again
    let mut after = vec![
        Step::new(Op::Publish { topic: topic.clone(), msgs: msgs(&mut rng, 1, false) }),
        Step::new(Op::Pull { sub: other.clone(), max: 100, immediate: true }),
        Step::new(Op::Pull { sub: fresh_sub.clone(), max: 100, immediate: true }),
    ];
    if matches!(kind, 1 | 4) && (delete_race || rng.chance(300)) {
        // the client repeats its DeleteSubscription
        after.push(Step::new(Op::DeleteSub { sub: sub.clone() }));
        after.push(Step::new(Op::GetSub { sub: sub.clone() }));
    }
    plan.phases.push(Phase { scripts: vec![after], advance_us: 0, audit: true });
    plan
}

// ------------------------------------------------------------------------------------------------
// F-cancel-big: requests that carry more than 1000 messages / ack IDs, dropped at their k-th
// suspension: whatever the server does with such a request internally, it is applied entirely
// or not at all.
// ------------------------------------------------------------------------------------------------

pub fn f_cancel_big(seed: u64) -> Plan {
    let mut rng = Rng::new(seed);
    let mut plan = Plan { seed, family: "cancel_big".into(), final_drain: true, health_probe: true, ..Default::default() };
    plan.tags.push("cancel".into());
    plan.tags.push("audit_lists".into());
    plan.knobs = knobs(&mut rng, true, 0);
    let topic = topic_name("proj-v", 0);
    let sub = sub_name("proj-v", 0, 0);
    let other = sub_name("proj-v", 0, 1);
    plan.phases.push(Phase {
        scripts: vec![vec![
            Step::new(Op::CreateTopic { topic: topic.clone() }),
            Step::new(Op::CreateSub { sub: sub.clone(), topic: topic.clone(), ack_deadline: 60, push: None }),
            Step::new(Op::CreateSub { sub: other.clone(), topic: topic.clone(), ack_deadline: 60, push: None }),
        ]],
        advance_us: 0,
        audit: false,
    });
    let k = *rng.pick(&[1u32, 2, 2, 3, 3, 4, 5, 6]);
    let count = *rng.pick(&[1001u32, 1500, 2500, 3000]);
    if rng.chance(500) {
        // a large Publish whose client goes away
        let mut target = Step::new(Op::PublishMany { topic: topic.clone(), count });
        target.abandon_at = k;
        plan.phases.push(Phase { scripts: vec![vec![target]], advance_us: rng.below(300_000), audit: true });
    } else {
        // a large Acknowledge whose client goes away
        let mut s = vec![Step::new(Op::PublishMany { topic: topic.clone(), count })];
        for _ in 0..4 {
            s.push(Step::new(Op::Pull { sub: sub.clone(), max: 1000, immediate: true }));
        }
        let mut target = Step::new(Op::Ack { sub: sub.clone(), sel: sel_any(Pick::All) });
        target.abandon_at = k;
        s.push(target);
        plan.phases.push(Phase { scripts: vec![s], advance_us: 61_500_000, audit: true });
    }
    plan.phases.push(Phase { scripts: vec![vec![Step::new(Op::Publish { topic: topic.clone(), msgs: msgs(&mut rng, 1, false) })]], advance_us: 0, audit: true });
    plan
}

// ------------------------------------------------------------------------------------------------
// F-hostile: a normal workload with malformed requests at drawn positions.
// ------------------------------------------------------------------------------------------------

pub fn f_hostile(seed: u64) -> Plan {
    let mut rng = Rng::new(seed);
    let mut plan = Plan { seed, family: "hostile".into(), final_drain: true, health_probe: true, ..Default::default() };
    plan.tags.push("hostile".into());
    plan.knobs = knobs(&mut rng, false, 0);
    let topic = topic_name("proj-h", 0);
    let sub = sub_name("proj-h", 0, 0);
    let sub2 = sub_name("proj-h", 0, 1);
    plan.phases.push(Phase {
        scripts: vec![vec![
            Step::new(Op::CreateTopic { topic: topic.clone() }),
            Step::new(Op::CreateSub { sub: sub.clone(), topic: topic.clone(), ack_deadline: 10, push: None }),
            Step::new(Op::CreateSub { sub: sub2.clone(), topic: topic.clone(), ack_deadline: 10, push: None }),
            Step::new(Op::Publish { topic: topic.clone(), msgs: msgs_r(&mut rng, 2, 5, false) }),
            Step::new(Op::Pull { sub: sub.clone(), max: 100, immediate: true }),
        ]],
        advance_us: rng.below(400_000),
        audit: false,
    });
    let bad_names: Vec<String> = vec![
        String::new(),
        "x".into(),
        "topics/foo".into(),
        "projects/".into(),
        "projects/p".into(),
        "projectsX/p/topics/t-long-enough-name".into(),
        "Projects/p/topics/t-long-enough-name".into(),
        " projects/p/topics/long-enough-name".into(),
        "проекты/п/темы/очень-длинное-имя-ресурса".into(),
        "projects".repeat(2000),
        // longer than what fits into response trailers when it is echoed back
        "x".repeat(17_000),
        "projects/p/topics/".to_string() + &"y".repeat(70_000) + "?",
        "ü".repeat(4_000),
        // multi-byte characters at every alignment around the lengths at which an echo may be cut
        "a".to_string() + &"ü".repeat(300),
        "€".repeat(200),
        "ab".to_string() + &"€".repeat(200),
        "🚀".repeat(100) + "a",
        "projects/p/topics/é".to_string() + &"é".repeat(400) + "?",
        "/".repeat(40),
        "projects-no-slash-but-long-enough-to-pass-len".into(),
    ];
    // near-miss names that deltio currently accepts or rejects in surprising ways (C18 territory):
    // only "a status or OK, no panic, no hang" is demanded for them, and they live in their own project.
    let odd_names: Vec<String> = vec![
        "projects/odd/subscriptions/used-as-topic-name".into(),
        "projects/odd/topics/abcdefghijklmnop".into(),
        "projects/odd/topics/a/".into(),
        "projects/odd//topics//x-long-enough".into(),
        "projects/odd/topics/".into(),
        "projects/odd/topic/é🚀-multibyte-boundary".into(),
        "projects/odd/é/ü".into(),
        "projects/é/topics/short".into(),
        "projects/odd/topics/name with spaces and / slashes".into(),
    ];
    // page tokens: undecodable ones, and decodable ones the server never issued (offsets past the end)
    let tokens: Vec<String> = {
        use base64::Engine;
        let enc = |v: u64| base64::engine::general_purpose::STANDARD.encode(v.to_ne_bytes());
        vec![String::new(), "@@@".into(), "AAAA".into(), "%%%".into(), "AAAAAAAAAAAA".into(), enc(0), enc(1), enc(2), enc(3), enc(5), enc(1000), enc(u64::MAX), enc(u64::MAX - 1), enc(1 << 33), enc(rng.next())]
    };
    let bad_acks: Vec<String> = vec![String::new(), "abc".into(), "-1".into(), "1.5".into(), " 7".into(), "7 ".into(), "99999999999999999999999999".into(), "0x10".into(), "١٢٣".into(), "18446744073709551617".into(), "340282366920938463463374607431768211457".into()];
    let odd_acks: Vec<String> = vec!["+5".into(), "0007".into(), "18446744073709551615".into(), "18446744073709551616".into()];
    let mut scripts: Vec<Vec<Step>> = Vec::new();
    let mut slot = 1u32;
    for _ in 0..rng.range(1, 3) {
        let mut s = Vec::new();
        for _ in 0..rng.range(3, 9) {
            let bad = rng.pick(&bad_names).clone();
            let odd = rng.pick(&odd_names).clone();
            let name = if rng.chance(650) { bad } else { odd };
            let op = match rng.below(26) {
                0 => Op::CreateTopic { topic: name },
                1 => Op::DeleteTopic { topic: name },
                2 => Op::GetTopic { topic: name },
                3 => Op::Publish { topic: name, msgs: msgs(&mut rng, 1, false) },
                4 => Op::CreateSub { sub: name, topic: topic.clone(), ack_deadline: 10, push: None },
                5 => Op::CreateSub { sub: sub_name("proj-h", 0, 5), topic: name, ack_deadline: 10, push: None },
                6 => Op::CreateSub { sub: sub_name("proj-h", 0, 6), topic: topic.clone(), ack_deadline: *rng.pick(&[i32::MIN, -1, i32::MAX]), push: None },
                7 => Op::CreateSub { sub: sub_name("proj-h", 0, 8), topic: topic.clone(), ack_deadline: 10, push: Some(PushSpec { endpoint: rng.pick(&["ftp://x", "", "   ", "gopher://h/", "mailto:a@b"]).to_string(), attrs: Default::default(), oidc: None }) },
                8 => Op::DeleteSub { sub: name },
                9 => Op::GetSub { sub: name },
                10 => Op::Pull { sub: name, max: 10, immediate: true },
                11 => Op::Pull { sub: sub2.clone(), max: *rng.pick(&[0i32, -1, i32::MIN, 65536, 65537, i32::MAX]), immediate: true },
                12 => Op::Ack { sub: name, sel: sel_any(Pick::LastN(1)) },
                // one bad element at a drawn position of an otherwise valid batch
                13 if rng.chance(300) => {
                    // many malformed IDs in one request (a status that names them all would not fit)
                    let n = *rng.pick(&[150usize, 600, 2000]);
                    let width = if n == 150 { 200 } else { 40 };
                    let ids: Vec<String> = (0..n).map(|i| format!("bad-{i}-{}", "z".repeat(width))).collect();
                    if rng.chance(500) {
                        Op::Ack { sub: sub.clone(), sel: Sel { mine: false, pick: Pick::LastN(1), extra: ids, ..Sel::none() } }
                    } else {
                        Op::ModAck { sub: sub.clone(), sel: Sel { mine: false, pick: Pick::LastN(1), extra: ids, ..Sel::none() }, secs: 20 }
                    }
                }
                13 | 14 => {
                    let mut ids: Vec<String> = Vec::new();
                    let pos = rng.below(3);
                    for i in 0..3 {
                        if i == pos {
                            ids.push(rng.pick(&bad_acks).clone());
                        }
                    }
                    Op::Ack { sub: sub.clone(), sel: Sel { mine: false, pick: Pick::All, extra: ids, ..Sel::none() } }
                }
                15 => Op::ModAck { sub: sub.clone(), sel: Sel { mine: false, pick: Pick::All, extra: vec![rng.pick(&bad_acks).clone()], ..Sel::none() }, secs: *rng.pick(&[0i32, 30]) },
                // large batches: live ids first, then filler, one malformed id at a drawn position
                16 => {
                    let filler = *rng.pick(&[3u32, 499, 500, 501, 600, 1001, 1200]);
                    let bad_at = Some(*rng.pick(&[0u32, filler / 2, filler, u32::MAX]));
                    if rng.chance(500) {
                        Op::Ack { sub: sub.clone(), sel: Sel { mine: false, pick: Pick::All, filler, bad_at, ..Sel::none() } }
                    } else {
                        Op::ModAck { sub: sub.clone(), sel: Sel { mine: false, pick: Pick::All, filler, bad_at, ..Sel::none() }, secs: *rng.pick(&[0i32, 30, 600]) }
                    }
                }
                17 => Op::ModAck { sub: sub.clone(), sel: sel_any(Pick::All), secs: *rng.pick(&[-1i32, i32::MIN]) },
                18 => Op::Ack { sub: sub.clone(), sel: Sel { mine: false, pick: Pick::None, extra: vec![rng.pick(&odd_acks).clone()], ..Sel::none() } },
                19 => Op::ListPage { kind: ListKind::Topics, parent: rng.pick(&["", "proj-h", "projects", "projectsproj-h", "projects/proj-h"]).to_string(), page_size: *rng.pick(&[-1i32, i32::MIN, 0, 5]), token: rng.pick(&tokens).clone() },
                20 => Op::ListPage { kind: ListKind::Subs, parent: "projects/proj-h".into(), page_size: *rng.pick(&[-7i32, 0, 3, i32::MAX]), token: rng.pick(&tokens).clone() },
                21 => {
                    if rng.chance(500) {
                        Op::ListPage { kind: ListKind::TopicSubs, parent: name, page_size: 10, token: String::new() }
                    } else {
                        Op::ListPage { kind: ListKind::TopicSubs, parent: topic.clone(), page_size: *rng.pick(&[0i32, 1, 1000]), token: rng.pick(&tokens).clone() }
                    }
                }
                22 => {
                    let my = slot;
                    slot += 1;
                    Op::StreamOpen { slot: my, sub: name, max_msgs: 0, max_bytes: 0, policy: StreamPolicy::Hold, window: 0, stall_after: 0, stall_us: 0 }
                }
                23 => {
                    let my = slot;
                    slot += 1;
                    Op::StreamOpen { slot: my, sub: sub2.clone(), max_msgs: *rng.pick(&[-1i64, 65536, i64::MAX, i64::MIN]), max_bytes: *rng.pick(&[0i64, -1, i64::MAX]), policy: StreamPolicy::Hold, window: 0, stall_after: 0, stall_us: 0 }
                }
                _ => Op::ModAck { sub: sub.clone(), sel: Sel { mine: false, pick: Pick::None, extra: vec![], ..Sel::none() }, secs: -5 },
            };
            s.push(Step::after(rng.below(2) * rng.below(500), op));
        }
        scripts.push(s);
    }
    // a stream that holds deliveries and then receives a bad control message
    if rng.chance(600) {
        let my = slot;
        let hostile = match rng.below(7) {
            0 => Op::StreamSend { slot: my, ack: Sel::none(), modack: Sel::none(), modack_secs: 0, raw_sub: sub2.clone(), raw_max_msgs: 0, raw_max_bytes: 0, extra_secs: vec![], secs_pattern: vec![], stream_secs: 0 },
            1 => Op::StreamSend { slot: my, ack: Sel::none(), modack: Sel::none(), modack_secs: 0, raw_sub: String::new(), raw_max_msgs: 5, raw_max_bytes: 0, extra_secs: vec![], secs_pattern: vec![], stream_secs: 0 },
            2 => Op::StreamSend { slot: my, ack: Sel::none(), modack: Sel::none(), modack_secs: 0, raw_sub: String::new(), raw_max_msgs: 0, raw_max_bytes: 9, extra_secs: vec![], secs_pattern: vec![], stream_secs: 0 },
            3 => Op::StreamSend { slot: my, ack: Sel::none(), modack: sel_any(Pick::LastN(1)), modack_secs: 20, raw_sub: String::new(), raw_max_msgs: 0, raw_max_bytes: 0, extra_secs: vec![30], secs_pattern: vec![], stream_secs: 0 },
            4 => Op::StreamSend { slot: my, ack: Sel { mine: false, pick: Pick::LastN(2), extra: vec![rng.pick(&bad_acks).clone()], ..Sel::none() }, modack: Sel::none(), modack_secs: 0, raw_sub: String::new(), raw_max_msgs: 0, raw_max_bytes: 0, extra_secs: vec![], secs_pattern: vec![], stream_secs: 0 },
            // valid acks of what the stream holds together with a malformed modify entry: the frame is
            // rejected as a whole, so the acks must not be applied either
            _ => Op::StreamSend { slot: my, ack: sel_mine(Pick::All), modack: Sel { mine: false, pick: Pick::None, extra: vec![rng.pick(&bad_acks).clone()], ..Sel::none() }, modack_secs: *rng.pick(&[0i32, 30]), raw_sub: String::new(), raw_max_msgs: 0, raw_max_bytes: 0, extra_secs: vec![], secs_pattern: vec![], stream_secs: 0 },
        };
        let mut st = vec![Step::new(Op::StreamOpen { slot: my, sub: sub2.clone(), max_msgs: 0, max_bytes: 0, policy: StreamPolicy::Hold, window: 0, stall_after: 0, stall_us: 0 }), Step::after(rng.range(1_000, 50_000), hostile)];
        // mark ack-id-hostile sends as hostile too (the harness flags raw_* and unequal lists itself)
        if let Op::StreamSend { ack, .. } = &st[1].op {
            if !ack.extra.is_empty() {
                plan.tags.push("stream_bad_ack".into());
            }
        }
        st.push(Step::after(100_000, Op::Nop));
        scripts.push(st);
    }
    // valid traffic alongside
    scripts.push(vec![
        Step::new(Op::Publish { topic: topic.clone(), msgs: msgs_r(&mut rng, 1, 3, false) }),
        Step::after(rng.below(2_000), Op::Pull { sub: sub2.clone(), max: 100, immediate: true }),
        Step::new(Op::Ack { sub: sub2.clone(), sel: sel_mine(Pick::LastResponse) }),
    ]);
    // push mode: a healthy push subscription must keep being served whatever the hostile requests do
    let push_mode = rng.chance(350);
    if push_mode {
        plan.knobs.push_interval_ms = *rng.pick(&[100u32, 1000]);
        plan.tags.push("push".into());
        let healthy = sub_name("proj-h", 0, 2);
        plan.phases[0].scripts[0].push(Step::new(Op::CreateSub { sub: healthy, topic: topic.clone(), ack_deadline: 10, push: Some(PushSpec { endpoint: "http://ok.test/hook".into(), attrs: Default::default(), oidc: None }) }));
        let mut s = Vec::new();
        // endpoints that pass the "starts with http" check but are not URLs
        if rng.chance(600) {
            s.push(Step::after(rng.below(1_000), Op::CreateSub { sub: sub_name("proj-h", 0, 9), topic: topic.clone(), ack_deadline: 10, push: Some(PushSpec { endpoint: rng.pick(&["http//host.test/x", "httpfoo", "http://", "http:// host.test/with space", "https://[::bad"]).to_string(), attrs: Default::default(), oidc: None }) }));
        }
        // a cross-project create with a push config is rejected; its name is then used by a valid pull subscription
        if rng.chance(600) {
            let other_topic = "projects/other-proj/topics/other-topic".to_string();
            let reuse = "projects/other-proj/subscriptions/reuse-me".to_string();
            s.push(Step::new(Op::CreateTopic { topic: other_topic.clone() }));
            s.push(Step::new(Op::CreateSub { sub: reuse.clone(), topic: topic.clone(), ack_deadline: 10, push: Some(PushSpec { endpoint: "http://stale.test/hook".into(), attrs: Default::default(), oidc: None }) }));
            s.push(Step::new(Op::CreateSub { sub: reuse.clone(), topic: other_topic.clone(), ack_deadline: 10, push: None }));
            s.push(Step::new(Op::Publish { topic: other_topic, msgs: msgs_r(&mut rng, 1, 2, false) }));
        }
        s.push(Step::after(rng.below(300_000), Op::Publish { topic: topic.clone(), msgs: msgs_r(&mut rng, 1, 2, false) }));
        scripts.push(s);
    }
    plan.phases.push(Phase { scripts, advance_us: *rng.pick(&[0u64, 1_000_000, 11_000_000]), audit: true });
    if push_mode {
        plan.phases.push(Phase { scripts: vec![vec![Step::new(Op::EndpointFaultsOff), Step::new(Op::Publish { topic: topic.clone(), msgs: msgs_r(&mut rng, 1, 2, false) })]], advance_us: 1_000_000 + 10_000_000 + 5_000_000, audit: true });
        plan.final_drain = false;
    }
    plan.phases.push(Phase { scripts: vec![vec![Step::new(Op::Pull { sub: sub.clone(), max: 100, immediate: true })]], advance_us: 0, audit: true });
    plan
}


// ------------------------------------------------------------------------------------------------
// F-limits: batch limits around the backlog size, incl. the 16-bit conversion of max_messages.
// ------------------------------------------------------------------------------------------------

pub fn f_limits(seed: u64, allow_huge: bool) -> Plan {
    let mut rng = Rng::new(seed);
    let mut plan = Plan { seed, family: "limits".into(), final_drain: true, health_probe: true, ..Default::default() };
    plan.tags.push("sequential".into());
    plan.knobs = knobs(&mut rng, false, 0);
    let topic = topic_name("proj-q", 0);
    let sub = sub_name("proj-q", 0, 0);
    plan.phases.push(Phase {
        scripts: vec![vec![Step::new(Op::CreateTopic { topic: topic.clone() }), Step::new(Op::CreateSub { sub: sub.clone(), topic: topic.clone(), ack_deadline: 10, push: None })]],
        advance_us: rng.below(200_000),
        audit: false,
    });
    let huge = allow_huge && rng.chance(60);
    let limits: Vec<i32> = if huge { vec![1, 1000, 1001, 65535, 65536, 65537, 131072, i32::MAX] } else { vec![1, 2, 3, 5, 999, 1000, 1001, 65535, 65536, 65537, i32::MAX] };
    let limit = *rng.pick(&limits);
    let backlog: u32 = if huge {
        *rng.pick(&[65535u32, 65536, 65537, 70000])
    } else {
        let l = limit.clamp(1, 1200) as u32;
        *rng.pick(&[0u32, 1, l.saturating_sub(1), l, l + 1, 7, 1000, 1001])
    };
    let mut script: Vec<Step> = Vec::new();
    if backlog > 0 {
        // one or two Publish requests
        if backlog > 3 && rng.chance(400) {
            let first = rng.range(1, backlog as u64 - 1) as u32;
            script.push(Step::new(Op::PublishMany { topic: topic.clone(), count: first }));
            script.push(Step::new(Op::PublishMany { topic: topic.clone(), count: backlog - first }));
        } else {
            script.push(Step::new(Op::PublishMany { topic: topic.clone(), count: backlog }));
        }
    }
    for _ in 0..rng.range(1, 4) {
        let max = if rng.chance(600) { limit } else { *rng.pick(&limits) };
        script.push(Step::after(rng.below(50_000), Op::Pull { sub: sub.clone(), max, immediate: rng.chance(800) || backlog == 0 }));
        if rng.chance(300) {
            script.push(Step::new(Op::Ack { sub: sub.clone(), sel: sel_mine(Pick::LastResponse) }));
        }
    }
    plan.phases.push(Phase { scripts: vec![script], advance_us: *rng.pick(&[0u64, 11_500_000]), audit: true });
    // a stream with a limit, then whatever is left
    let mut tail: Vec<Step> = Vec::new();
    let smax = *rng.pick(&[0i64, 1, 2, 1000, 65535, 65536, 70000]);
    tail.push(Step::new(Op::StreamOpen { slot: 1, sub: sub.clone(), max_msgs: smax, max_bytes: 0, policy: StreamPolicy::Hold, window: 0, stall_after: 0, stall_us: 0 }));
    tail.push(Step::after(200_000, Op::StreamDrop { slot: 1 }));
    plan.phases.push(Phase { scripts: vec![tail], advance_us: 11_500_000, audit: true });
    plan.phases.push(Phase { scripts: vec![vec![Step::new(Op::Pull { sub: sub.clone(), max: limit, immediate: true }), Step::new(Op::Pull { sub: sub.clone(), max: 1000, immediate: true })]], advance_us: 0, audit: false });
    plan
}


// ------------------------------------------------------------------------------------------------
// F-lease-parked: the delivery is handed to a consumer that had been parked for a while.
// ------------------------------------------------------------------------------------------------

pub fn f_lease_parked(seed: u64) -> Plan {
    let mut rng = Rng::new(seed);
    let mut plan = Plan { seed, family: "lease_parked".into(), final_drain: true, health_probe: false, ..Default::default() };
    plan.tags.push("sequential".into());
    plan.tags.push("double_audit".into());
    plan.knobs = knobs(&mut rng, false, 0);
    plan.knobs.pre_advance_us = rng.below(400_000);
    let topic = topic_name("proj-k", 0);
    let sub = sub_name("proj-k", 0, 0);
    let dl_req = *rng.pick(&[0i32, 10, 10, 11, 17, 60]);
    let d_us = (dl_req.max(10) as u64) * 1_000_000;
    plan.phases.push(Phase {
        scripts: vec![vec![Step::new(Op::CreateTopic { topic: topic.clone() }), Step::new(Op::CreateSub { sub: sub.clone(), topic: topic.clone(), ack_deadline: dl_req, push: None })]],
        advance_us: rng.below(300_000),
        audit: false,
    });
    // a consumer parks ...
    let streaming = rng.chance(300);
    let park = if streaming {
        Op::StreamOpen { slot: 1, sub: sub.clone(), max_msgs: *rng.pick(&[0i64, 10]), max_bytes: 0, policy: StreamPolicy::Hold, window: 0, stall_after: 0, stall_us: 0 }
    } else {
        Op::PullBg { slot: 1, sub: sub.clone(), max: *rng.pick(&[1i32, 10, 1000]) }
    };
    let waited = *rng.pick(&[1_000_000u64, 3_000_000, 6_000_000, 9_500_000, 10_500_000, 25_000_000, 120_000_000]) + rng.below(500_000);
    plan.phases.push(Phase { scripts: vec![vec![Step::new(park)]], advance_us: waited, audit: false });
    // ... then the message arrives and is handed to it; the stream is closed so that the later
    // probes are the only consumer
    let mut s = vec![Step::new(Op::Publish { topic: topic.clone(), msgs: msgs_r(&mut rng, 1, 2, false) })];
    if streaming {
        s.push(Step::after(5_000, Op::StreamDrop { slot: 1 }));
    }
    plan.phases.push(Phase { scripts: vec![s], advance_us: 0, audit: true });
    // probes on both sides of the deadline, dated from the hand-out (= the publish)
    let mut probes: Vec<Step> = Vec::new();
    let mut now = 60_000u64; // the barriers of the previous phase took about this long
    for target in [d_us / 2, d_us.saturating_sub(waited.min(d_us - 1_000)).max(1_000_000), d_us - 1_200_000, d_us - 200_000] {
        if rng.chance(500) && target > now {
            probes.push(Step::after(target - now, Op::Pull { sub: sub.clone(), max: 1000, immediate: true }));
            now = target;
        }
    }
    // a second consumer parks before the deadline and must be woken by the expiry (C04.blocked)
    if rng.chance(500) {
        probes.push(Step::new(Op::PullBg { slot: 2, sub: sub.clone(), max: 10 }));
        plan.phases.push(Phase { scripts: vec![probes], advance_us: d_us + 1_300_000 - now.min(d_us), audit: true });
        plan.phases.push(Phase { scripts: vec![], advance_us: 0, audit: true });
    } else {
        let late = d_us + 1_200_000;
        probes.push(Step::after(late.saturating_sub(now), Op::Pull { sub: sub.clone(), max: 1000, immediate: true }));
        plan.phases.push(Phase { scripts: vec![probes], advance_us: *rng.pick(&[0u64, 12_000_000]), audit: true });
    }
    plan.phases.push(Phase { scripts: vec![vec![Step::new(Op::Pull { sub: sub.clone(), max: 1000, immediate: true })]], advance_us: 0, audit: false });
    plan
}


// ------------------------------------------------------------------------------------------------
// F-bigbatch: one Publish request of 1000-3000 messages racing small ones; a sequential consumer.
// ------------------------------------------------------------------------------------------------

pub fn f_bigbatch(seed: u64) -> Plan {
    let mut rng = Rng::new(seed);
    let mut plan = Plan { seed, family: "bigbatch".into(), final_drain: true, health_probe: false, ..Default::default() };
    plan.knobs = knobs(&mut rng, false, 0);
    let topic = topic_name("proj-b", 0);
    let n_subs = rng.range(1, 2) as usize;
    let mut setup = vec![Step::new(Op::CreateTopic { topic: topic.clone() })];
    for j in 0..n_subs {
        setup.push(Step::new(Op::CreateSub { sub: sub_name("proj-b", 0, j), topic: topic.clone(), ack_deadline: 60, push: None }));
    }
    plan.phases.push(Phase { scripts: vec![setup], advance_us: 0, audit: false });
    let mut scripts: Vec<Vec<Step>> = Vec::new();
    let big_messages = rng.chance(300);
    if big_messages {
        // a few very large messages instead of very many small ones: responses of several MiB
        let mut s = Vec::new();
        for _ in 0..rng.range(4, 7) {
            s.push(Step::after(rng.below(2) * 1_000, Op::Publish { topic: topic.clone(), msgs: vec![MsgSpec { data: 5, attrs: *rng.pick(&[0u8, 1]) }] }));
        }
        scripts.push(s);
    } else {
        scripts.push(vec![Step::after(rng.below(2) * 1_000, Op::PublishMany { topic: topic.clone(), count: *rng.pick(&[999u32, 1000, 1001, 1500, 2048, 3000]) })]);
    }
    for _ in 0..rng.range(1, 3) {
        let mut s = Vec::new();
        for _ in 0..rng.range(1, 4) {
            s.push(Step::after(rng.below(3) * 1_000, Op::Publish { topic: topic.clone(), msgs: msgs_r(&mut rng, 1, 3, false) }));
        }
        scripts.push(s);
    }
    plan.phases.push(Phase { scripts, advance_us: 0, audit: false });
    // one sequential consumer per subscription, acknowledging as it goes (for the very large
    // messages sometimes a StreamingPull, which gets the whole backlog as one page)
    let mut scripts: Vec<Vec<Step>> = Vec::new();
    for j in 0..n_subs {
        let sub = sub_name("proj-b", 0, j);
        let mut s = Vec::new();
        if big_messages && rng.chance(500) {
            scripts.push(vec![Step::new(Op::StreamOpen { slot: 10 + j as u32, sub: sub.clone(), max_msgs: 1000, max_bytes: 0, policy: StreamPolicy::AckAll, window: 0, stall_after: 0, stall_us: 0 })]);
            continue;
        }
        let ack_at_end = rng.chance(400);
        for _ in 0..6 {
            s.push(Step::new(Op::Pull { sub: sub.clone(), max: *rng.pick(&[1000i32, 1000, 700, 5000]), immediate: true }));
            if !ack_at_end {
                s.push(Step::new(Op::Ack { sub: sub.clone(), sel: sel_mine(Pick::LastResponse) }));
            }
        }
        if ack_at_end {
            // one Acknowledge naming everything this consumer received (1000-3000+ ids)
            s.push(Step::new(Op::Ack { sub: sub.clone(), sel: sel_mine(Pick::All) }));
        }
        scripts.push(s);
    }
    // let every lease that was not really acknowledged run out, then look again
    plan.phases.push(Phase { scripts, advance_us: 61_500_000, audit: false });
    let mut scripts: Vec<Vec<Step>> = Vec::new();
    for j in 0..n_subs {
        scripts.push(vec![Step::new(Op::Pull { sub: sub_name("proj-b", 0, j), max: 1000, immediate: true })]);
    }
    plan.phases.push(Phase { scripts, advance_us: 0, audit: false });
    plan
}

// ------------------------------------------------------------------------------------------------
// F-dupcreate: several clients create the same subscription name at once (no deletes), then
// the topic is published to: whichever create won, the subscription must receive everything.
// ------------------------------------------------------------------------------------------------

pub fn f_dupcreate(seed: u64) -> Plan {
    let mut rng = Rng::new(seed);
    let mut plan = Plan { seed, family: "dupcreate".into(), final_drain: true, health_probe: true, ..Default::default() };
    plan.tags.push("audit_lists".into());
    plan.knobs = knobs(&mut rng, true, 0);
    let topic = topic_name("proj-u", 0);
    plan.phases.push(Phase { scripts: vec![vec![Step::new(Op::CreateTopic { topic: topic.clone() })]], advance_us: 0, audit: false });
    let n_names = rng.range(1, 2) as usize;
    let mut scripts: Vec<Vec<Step>> = Vec::new();
    let mut dl = 11;
    for j in 0..n_names {
        let sub = sub_name("proj-u", 0, j);
        for _ in 0..rng.range(2, 4) {
            dl += 1;
            let mut s = vec![Step::after(rng.below(2) * rng.below(300), Op::CreateSub { sub: sub.clone(), topic: topic.clone(), ack_deadline: dl, push: None })];
            if rng.chance(300) {
                s.push(Step::new(Op::GetSub { sub: sub.clone() }));
            }
            scripts.push(s);
        }
    }
    if rng.chance(500) {
        scripts.push(vec![Step::after(rng.below(300), Op::Publish { topic: topic.clone(), msgs: msgs_r(&mut rng, 1, 3, false) })]);
    }
    plan.phases.push(Phase { scripts, advance_us: rng.below(500_000), audit: true });
    let mut after: Vec<Step> = vec![Step::new(Op::Publish { topic: topic.clone(), msgs: msgs_r(&mut rng, 1, 4, false) })];
    for j in 0..n_names {
        let sub = sub_name("proj-u", 0, j);
        after.push(Step::new(Op::Pull { sub: sub.clone(), max: 100, immediate: true }));
        if rng.chance(500) {
            after.push(Step::new(Op::Ack { sub, sel: sel_mine(Pick::LastResponse) }));
        }
    }
    plan.phases.push(Phase { scripts: vec![after], advance_us: *rng.pick(&[0u64, 13_000_000]), audit: true });
    plan
}

// ------------------------------------------------------------------------------------------------
// F-consumers-saturated: waiting consumers, an availability event and a cancellation while the
// subscription's mailbox is saturated by a burst (a woken consumer may have to wait for a slot).
// ------------------------------------------------------------------------------------------------

pub fn f_consumers_saturated(seed: u64) -> Plan {
    let mut rng = Rng::new(seed);
    let mut plan = Plan { seed, family: "consumers_saturated".into(), final_drain: true, health_probe: true, ..Default::default() };
    plan.tags.push("double_audit".into());
    plan.knobs = knobs(&mut rng, false, 0);
    if plan.knobs.site_mask != 0 {
        plan.knobs.yield_permille = *rng.pick(&[150u32, 300, 500]);
        plan.knobs.max_yields = rng.range(1, 4) as u32;
    }
    let topic = topic_name("proj-s", 0);
    let sub = sub_name("proj-s", 0, 0);
    plan.phases.push(Phase {
        scripts: vec![vec![Step::new(Op::CreateTopic { topic: topic.clone() }), Step::new(Op::CreateSub { sub: sub.clone(), topic: topic.clone(), ack_deadline: 10, push: None })]],
        advance_us: 0,
        audit: false,
    });
    // consumers park
    let n_cons = rng.range(2, 4) as u32;
    let mut scripts = Vec::new();
    for slot in 1..=n_cons {
        scripts.push(vec![Step::new(Op::PullBg { slot, sub: sub.clone(), max: *rng.pick(&[1i32, 10]) })]);
    }
    plan.phases.push(Phase { scripts, advance_us: rng.below(300_000), audit: false });
    // burst + publish + cancellations, all at once
    let mut scripts: Vec<Vec<Step>> = Vec::new();
    // (with more than 16 requests behind the publish the mailbox is still full when the woken
    // consumers pull again)
    let n_burst = if rng.chance(500) { rng.range(14, 26) } else { rng.range(30, 50) };
    let pub_pos = if n_burst >= 30 && rng.chance(600) { rng.below(8) } else { rng.below(n_burst) };
    // half of the runs: a burst of acknowledgements only (requests that never signal consumers)
    let acks_only = rng.chance(500);
    for i in 0..n_burst {
        if i == pub_pos {
            scripts.push(vec![Step::new(Op::Publish { topic: topic.clone(), msgs: msgs_r(&mut rng, 1, 2, false) })]);
        }
        let op = match if acks_only { 2 } else { rng.below(3) } {
            0 => Op::GetSub { sub: sub.clone() },
            1 => Op::ModAck { sub: sub.clone(), sel: Sel { mine: false, pick: Pick::None, extra: vec!["424242".into()], ..Sel::none() }, secs: 10 },
            _ => Op::Ack { sub: sub.clone(), sel: Sel { mine: false, pick: Pick::None, extra: vec!["424243".into()], ..Sel::none() } },
        };
        scripts.push(vec![Step::new(op)]);
    }
    for slot in 1..=n_cons {
        if rng.chance(500) {
            let pos = rng.below(scripts.len() as u64 + 1) as usize;
            scripts.insert(pos, vec![Step::new(Op::CancelBg { slot })]);
        }
    }
    plan.phases.push(Phase { scripts, advance_us: 0, audit: true });
    plan.phases.push(Phase { scripts: vec![], advance_us: 0, audit: true });
    plan
}


// ------------------------------------------------------------------------------------------------
// F-burst-order: several publishes inside a burst of requests that fills a subscription's mailbox
// (the fan-out of one publish has to wait for a slot while the next one arrives), then one
// consumer drains: the order of first deliveries must still be the publish order.
// ------------------------------------------------------------------------------------------------

pub fn f_burst_order(seed: u64) -> Plan {
    let mut rng = Rng::new(seed);
    let mut plan = Plan { seed, family: "burst_order".into(), final_drain: true, health_probe: true, ..Default::default() };
    plan.knobs = knobs(&mut rng, false, 0);
    let topic = topic_name("proj-b", 0);
    let n_subs = rng.range(1, 2) as usize;
    let subs: Vec<String> = (0..n_subs).map(|j| sub_name("proj-b", 0, j)).collect();
    let mut setup = vec![Step::new(Op::CreateTopic { topic: topic.clone() })];
    for s in subs.iter() {
        setup.push(Step::new(Op::CreateSub { sub: s.clone(), topic: topic.clone(), ack_deadline: 60, push: None }));
    }
    plan.phases.push(Phase { scripts: vec![setup], advance_us: 0, audit: false });
    for _ in 0..rng.range(1, 2) {
        let mut scripts: Vec<Vec<Step>> = Vec::new();
        let n_burst = rng.range(18, 40);
        for _ in 0..n_burst {
            let sub = rng.pick(&subs).clone();
            let op = match rng.below(3) {
                0 => Op::ModAck { sub, sel: Sel { mine: false, pick: Pick::None, extra: vec!["424242".into()], ..Sel::none() }, secs: 10 },
                1 => Op::Ack { sub, sel: Sel { mine: false, pick: Pick::None, extra: vec!["424243".into()], ..Sel::none() } },
                _ => Op::Pull { sub, max: 0, immediate: true },
            };
            scripts.push(vec![Step::new(op)]);
        }
        for _ in 0..rng.range(2, 4) {
            let pos = rng.below(scripts.len() as u64 + 1) as usize;
            scripts.insert(pos, vec![Step::new(Op::Publish { topic: topic.clone(), msgs: msgs_r(&mut rng, 1, 2, false) })]);
        }
        plan.phases.push(Phase { scripts, advance_us: 0, audit: true });
    }
    plan.phases.push(Phase { scripts: subs.iter().map(|s| vec![Step::new(Op::DrainPull { sub: s.clone() })]).collect(), advance_us: 0, audit: true });
    plan
}

// ------------------------------------------------------------------------------------------------
// F-zombie: a CreateSubscription racing a DeleteSubscription of the same name next to a healthy
// subscription of the same topic, then publishes (which may fail half-way through the fan-out
// when the deleted subscription stayed attached), then the healthy subscription is drained.
// ------------------------------------------------------------------------------------------------

pub fn f_zombie(seed: u64) -> Plan {
    let mut rng = Rng::new(seed);
    let mut plan = Plan { seed, family: "zombie".into(), final_drain: true, health_probe: true, ..Default::default() };
    plan.tags.push("audit_lists".into());
    plan.knobs = knobs(&mut rng, false, 0);
    if plan.knobs.site_mask == 0 || rng.chance(500) {
        plan.knobs.site_mask = u64::MAX;
        plan.knobs.yield_permille = *rng.pick(&[300u32, 500, 700]);
        plan.knobs.max_yields = rng.range(1, 5) as u32;
    }
    let topic = topic_name("proj-y", 0);
    let healthy = sub_name("proj-y", 0, 0);
    let racy = sub_name("proj-y", 0, 1);
    plan.phases.push(Phase {
        scripts: vec![vec![Step::new(Op::CreateTopic { topic: topic.clone() }), Step::new(Op::CreateSub { sub: healthy.clone(), topic: topic.clone(), ack_deadline: 30, push: None })]],
        advance_us: 0,
        audit: false,
    });
    let mut dl = 11;
    for _ in 0..rng.range(1, 3) {
        let mut scripts = vec![
            vec![Step::after(rng.below(3) * rng.below(200), Op::CreateSub { sub: racy.clone(), topic: topic.clone(), ack_deadline: dl, push: None })],
            vec![Step::after(rng.below(3) * rng.below(200), Op::DeleteSub { sub: racy.clone() })],
        ];
        dl += 1;
        if rng.chance(400) {
            scripts.push(vec![Step::after(rng.below(300), Op::Publish { topic: topic.clone(), msgs: msgs(&mut rng, 1, true) })]);
        }
        plan.phases.push(Phase { scripts, advance_us: 0, audit: true });
        // publishes, one after the other
        let mut s = Vec::new();
        for _ in 0..rng.range(1, 3) {
            s.push(Step::after(rng.below(1_000), Op::Publish { topic: topic.clone(), msgs: msgs_r(&mut rng, 1, 2, true) }));
        }
        if rng.chance(500) {
            // the name is created and deleted again (which detaches whatever the topic held for it)
            s.push(Step::new(Op::CreateSub { sub: racy.clone(), topic: topic.clone(), ack_deadline: dl, push: None }));
            dl += 1;
            s.push(Step::new(Op::DeleteSub { sub: racy.clone() }));
            s.push(Step::new(Op::Publish { topic: topic.clone(), msgs: msgs_r(&mut rng, 1, 2, true) }));
        }
        s.push(Step::new(Op::Pull { sub: healthy.clone(), max: 1000, immediate: true }));
        if rng.chance(500) {
            s.push(Step::new(Op::Ack { sub: healthy.clone(), sel: sel_any(Pick::LastResponse) }));
        }
        plan.phases.push(Phase { scripts: vec![s], advance_us: *rng.pick(&[0u64, 0, 31_000_000]), audit: true });
    }
    plan
}

// ------------------------------------------------------------------------------------------------
// F-topicburst: a create or delete of a subscription processed while its topic's mailbox is full
// (a burst of publishes and listings on the topic), then the name is used sequentially.
// ------------------------------------------------------------------------------------------------

pub fn f_topicburst(seed: u64) -> Plan {
    let mut rng = Rng::new(seed);
    let mut plan = Plan { seed, family: "topicburst".into(), final_drain: true, health_probe: true, ..Default::default() };
    plan.tags.push("names".into());
    plan.tags.push("audit_lists".into());
    plan.knobs = knobs(&mut rng, false, 0);
    let topic = topic_name("proj-q", 0);
    let subs: Vec<String> = (0..2).map(|j| sub_name("proj-q", 0, j)).collect();
    let mut dl = 11;
    let mut setup = vec![Step::new(Op::CreateTopic { topic: topic.clone() })];
    for s in subs.iter().take(rng.range(1, 2) as usize) {
        setup.push(Step::new(Op::CreateSub { sub: s.clone(), topic: topic.clone(), ack_deadline: dl, push: None }));
        dl += 1;
    }
    plan.phases.push(Phase { scripts: vec![setup], advance_us: 0, audit: false });
    // in half of the runs consumers are waiting on the subscriptions when the burst comes
    if rng.chance(500) {
        let mut scripts = Vec::new();
        let mut slot = 1u32;
        for s in subs.iter() {
            if rng.chance(500) {
                scripts.push(vec![Step::new(Op::StreamOpen { slot, sub: s.clone(), max_msgs: 0, max_bytes: 0, policy: StreamPolicy::AckAll, window: 0, stall_after: 0, stall_us: 0 })]);
            } else {
                scripts.push(vec![Step::new(Op::PullBg { slot, sub: s.clone(), max: 1000 })]);
            }
            slot += 1;
        }
        plan.phases.push(Phase { scripts, advance_us: rng.below(100_000), audit: false });
    }
    for _ in 0..rng.range(1, 2) {
        let mut scripts: Vec<Vec<Step>> = Vec::new();
        for _ in 0..rng.range(17, 34) {
            let op = match rng.below(4) {
                0 | 1 => Op::Publish { topic: topic.clone(), msgs: msgs(&mut rng, 1, false) },
                2 => Op::Walk { kind: ListKind::TopicSubs, parent: topic.clone(), page_size: 1000 },
                _ => Op::GetTopic { topic: topic.clone() },
            };
            scripts.push(vec![Step::new(op)]);
        }
        // exactly one create or delete in the burst (nothing else that could provoke a conflict)
        let name = rng.pick(&subs).clone();
        let op = if rng.chance(700) {
            Op::DeleteSub { sub: name.clone() }
        } else {
            dl += 1;
            Op::CreateSub { sub: name.clone(), topic: topic.clone(), ack_deadline: dl, push: None }
        };
        let pos = rng.below(scripts.len() as u64 + 1) as usize;
        scripts.insert(pos, vec![Step::new(op)]);
        plan.phases.push(Phase { scripts, advance_us: 0, audit: true });
        // the name afterwards, one request at a time
        let mut s = Vec::new();
        for _ in 0..rng.range(2, 5) {
            let op = match rng.below(6) {
                0 | 1 => Op::GetSub { sub: name.clone() },
                2 | 3 => Op::DeleteSub { sub: name.clone() },
                4 => {
                    dl += 1;
                    Op::CreateSub { sub: name.clone(), topic: topic.clone(), ack_deadline: dl, push: None }
                }
                _ => Op::Pull { sub: name.clone(), max: 10, immediate: true },
            };
            s.push(Step::new(op));
        }
        plan.phases.push(Phase { scripts: vec![s], advance_us: 0, audit: true });
    }
    plan
}

// ------------------------------------------------------------------------------------------------
// F-recreate: a CreateSubscription that is slow (stalled on its way to the topic) and then
// abandoned by its client, while the same name is deleted and created again by someone else;
// afterwards the name is read sequentially.
// ------------------------------------------------------------------------------------------------

pub fn f_recreate(seed: u64) -> Plan {
    let mut rng = Rng::new(seed);
    let mut plan = Plan { seed, family: "recreate".into(), final_drain: true, health_probe: true, ..Default::default() };
    plan.tags.push("names".into());
    plan.tags.push("audit_lists".into());
    plan.knobs = knobs(&mut rng, true, 0);
    // stalls on: the slow create is slow because its attach is held up at a schedule point
    plan.knobs.site_mask = if rng.chance(500) { u64::MAX } else { rng.next() | rng.next() };
    plan.knobs.stall_permille = *rng.pick(&[150u32, 300, 500]);
    plan.knobs.stall_max_us = *rng.pick(&[3_000u64, 8_000]);
    plan.knobs.yield_permille = *rng.pick(&[0u32, 150, 300]);
    plan.knobs.max_yields = 2;
    let topic = topic_name("proj-r", 0);
    let sub = sub_name("proj-r", 0, 0);
    plan.phases.push(Phase { scripts: vec![vec![Step::new(Op::CreateTopic { topic: topic.clone() })]], advance_us: 0, audit: false });
    let mut dl = 11;
    for _ in 0..rng.range(1, 2) {
        let mut slow = Step::after(rng.below(200), Op::CreateSub { sub: sub.clone(), topic: topic.clone(), ack_deadline: dl, push: None });
        dl += 1;
        if rng.chance(600) {
            slow.abandon_after_us = *rng.pick(&[500u64, 2_000, 5_000, 9_000, 20_000]);
        } else {
            slow.abandon_at = rng.range(1, 3) as u32;
        }
        let mut other = Vec::new();
        if rng.chance(500) {
            other.push(Step::after(rng.below(3) * rng.below(2_000), Op::DeleteSub { sub: sub.clone() }));
        }
        other.push(Step::after(rng.below(2) * rng.below(if other.is_empty() { 300 } else { 2_000 }), Op::CreateSub { sub: sub.clone(), topic: topic.clone(), ack_deadline: dl, push: None }));
        dl += 1;
        if rng.chance(300) {
            other.push(Step::after(rng.below(2_000), Op::GetSub { sub: sub.clone() }));
        }
        plan.phases.push(Phase { scripts: vec![vec![slow], other], advance_us: 0, audit: true });
        let mut s = vec![Step::new(Op::GetSub { sub: sub.clone() })];
        for _ in 0..rng.range(0, 2) {
            s.push(Step::new(match rng.below(4) {
                0 => Op::Pull { sub: sub.clone(), max: 10, immediate: true },
                1 => Op::ListPage { kind: ListKind::Subs, parent: "projects/proj-r".into(), page_size: 1000, token: String::new() },
                2 => Op::Publish { topic: topic.clone(), msgs: msgs(&mut rng, 1, false) },
                _ => Op::GetSub { sub: sub.clone() },
            }));
        }
        if rng.chance(400) {
            s.push(Step::new(Op::DeleteSub { sub: sub.clone() }));
        }
        plan.phases.push(Phase { scripts: vec![s], advance_us: 0, audit: true });
    }
    plan
}

// ------------------------------------------------------------------------------------------------
// F-conn: one client connection. Pull, StreamingPull, Acknowledge, GetSubscription and Publish travel over one real HTTP/2
// connection (hyper + h2 on an in-memory pipe) to the real tonic transport server (plan tag "conn"):
// 8-90 Pulls are parked on the connection, then ordinary and malformed requests are sent on the
// same connection; they must be answered at once, and a publish must still reach the parked Pulls.
// ------------------------------------------------------------------------------------------------

pub fn f_conn(seed: u64) -> Plan {
    let mut rng = Rng::new(seed);
    let mut plan = Plan { seed, family: "conn".into(), final_drain: false, health_probe: true, ..Default::default() };
    plan.tags.push("conn".into());
    plan.knobs = knobs(&mut rng, false, 0);
    plan.knobs.stall_permille = 0;
    plan.knobs.long_stall_permille = 0;
    let topic = topic_name("proj-k", 0);
    let parked_on = sub_name("proj-k", 0, 0);
    let other = sub_name("proj-k", 0, 1);
    plan.phases.push(Phase {
        scripts: vec![vec![
            Step::new(Op::CreateTopic { topic: topic.clone() }),
            Step::new(Op::CreateSub { sub: parked_on.clone(), topic: topic.clone(), ack_deadline: 10, push: None }),
            Step::new(Op::CreateSub { sub: other.clone(), topic: topic.clone(), ack_deadline: 10, push: None }),
        ]],
        advance_us: 0,
        audit: false,
    });
    let n = *rng.pick(&[8u64, 20, 31, 32, 33, 40, 64, 90]);
    let mut scripts = Vec::new();
    // some of the parked calls are StreamingPull streams (they stay for the whole run)
    let stream_share = *rng.pick(&[0u64, 0, 300, 1000]);
    for i in 0..n {
        let op = if rng.chance(stream_share) {
            Op::StreamOpen { slot: 1 + i as u32, sub: parked_on.clone(), max_msgs: *rng.pick(&[0i64, 1]), max_bytes: 0, policy: if rng.chance(500) { StreamPolicy::AckAll } else { StreamPolicy::Hold }, window: 0, stall_after: 0, stall_us: 0 }
        } else {
            Op::PullBg { slot: 1 + i as u32, sub: parked_on.clone(), max: *rng.pick(&[1i32, 10]) }
        };
        scripts.push(vec![Step::after(rng.below(3) * rng.below(2_000), op)]);
    }
    plan.phases.push(Phase { scripts, advance_us: rng.below(3) * rng.below(2_000_000), audit: false });
    let mut scripts = Vec::new();
    for _ in 0..rng.range(1, 4) {
        let op = match rng.below(5) {
            0 | 1 => Op::GetSub { sub: other.clone() },
            2 => Op::GetSub { sub: rng.pick(&["projects/proj-k/subscriptions/", "nonsense", "projects//subscriptions/x", "projects/proj-k/topics/topic-0"]).to_string() },
            3 => Op::Ack { sub: other.clone(), sel: Sel { mine: false, pick: Pick::None, extra: vec![rng.pick(&["this is not an ack id", "", "1:2:3", "-1"]).to_string()], ..Sel::none() } },
            4 if rng.chance(500) => Op::Publish { topic: topic.clone(), msgs: msgs(&mut rng, 1, false) },
            _ => Op::Pull { sub: other.clone(), max: 10, immediate: true },
        };
        scripts.push(vec![Step::after(rng.below(3) * rng.below(1_000), op)]);
    }
    plan.phases.push(Phase { scripts, advance_us: rng.below(2) * rng.below(1_000_000), audit: false });
    let k = rng.range(1, 3);
    plan.phases.push(Phase {
        scripts: vec![vec![
            Step::new(Op::Publish { topic: topic.clone(), msgs: msgs(&mut rng, k as usize, false) }),
            Step::after(rng.below(1_000), Op::GetSub { sub: other.clone() }),
            Step::new(Op::Pull { sub: other.clone(), max: 10, immediate: true }),
        ]],
        advance_us: 0,
        audit: true,
    });
    plan
}

// ------------------------------------------------------------------------------------------------
// F-redelete: a DeleteSubscription that is slow (its round trip to the topic actor is held up) while
// the same name is created again, next to a subscription that stays; afterwards both listings and
// GetSubscription are read sequentially.
// ------------------------------------------------------------------------------------------------

pub fn f_redelete(seed: u64) -> Plan {
    let mut rng = Rng::new(seed);
    let mut plan = Plan { seed, family: "redelete".into(), final_drain: true, health_probe: true, ..Default::default() };
    plan.tags.push("names".into());
    plan.tags.push("audit_lists".into());
    plan.knobs = knobs(&mut rng, true, 0);
    plan.knobs.site_mask = if rng.chance(500) { u64::MAX } else { rng.next() | rng.next() };
    plan.knobs.stall_permille = *rng.pick(&[150u32, 300, 500]);
    plan.knobs.stall_max_us = *rng.pick(&[3_000u64, 8_000]);
    plan.knobs.yield_permille = *rng.pick(&[0u32, 150, 300]);
    plan.knobs.max_yields = 2;
    let topic = topic_name("proj-r", 0);
    let sub = sub_name("proj-r", 0, 0);
    let other = sub_name("proj-r", 0, 1);
    plan.phases.push(Phase {
        scripts: vec![vec![
            Step::new(Op::CreateTopic { topic: topic.clone() }),
            Step::new(Op::CreateSub { sub: other.clone(), topic: topic.clone(), ack_deadline: 10, push: None }),
            Step::new(Op::CreateSub { sub: sub.clone(), topic: topic.clone(), ack_deadline: 11, push: None }),
        ]],
        advance_us: 0,
        audit: false,
    });
    let mut dl = 12;
    for _ in 0..rng.range(1, 2) {
        let mut scripts = vec![vec![Step::after(rng.below(300), Op::DeleteSub { sub: sub.clone() })]];
        for _ in 0..rng.range(1, 2) {
            scripts.push(vec![Step::after(rng.below(3) * rng.below(4_000), Op::CreateSub { sub: sub.clone(), topic: topic.clone(), ack_deadline: dl, push: None })]);
            dl += 1;
        }
        if rng.chance(300) {
            scripts.push(vec![Step::after(rng.below(4_000), Op::Publish { topic: topic.clone(), msgs: msgs(&mut rng, 1, false) })]);
        }
        plan.phases.push(Phase { scripts, advance_us: 0, audit: true });
        let mut s = vec![
            Step::new(Op::GetSub { sub: sub.clone() }),
            Step::new(Op::Walk { kind: ListKind::Subs, parent: "projects/proj-r".into(), page_size: *rng.pick(&[1i32, 2, 1000]) }),
            Step::new(Op::Walk { kind: ListKind::TopicSubs, parent: topic.clone(), page_size: *rng.pick(&[1i32, 2, 1000]) }),
        ];
        if rng.chance(500) {
            s.push(Step::new(Op::Publish { topic: topic.clone(), msgs: msgs(&mut rng, 1, false) }));
            s.push(Step::new(Op::Pull { sub: sub.clone(), max: 10, immediate: true }));
        }
        if rng.chance(500) {
            // make sure the name exists for the next round
            s.push(Step::new(Op::CreateSub { sub: sub.clone(), topic: topic.clone(), ack_deadline: dl, push: None }));
            dl += 1;
        }
        plan.phases.push(Phase { scripts: vec![s], advance_us: 0, audit: true });
    }
    plan
}

// ------------------------------------------------------------------------------------------------
// F-retopic: two overlapping DeleteTopic requests for one name, one of them slow (held up on its
// way to the topic actor), while the name is created again; afterwards the name is read and listed.
// ------------------------------------------------------------------------------------------------

pub fn f_retopic(seed: u64) -> Plan {
    let mut rng = Rng::new(seed);
    let mut plan = Plan { seed, family: "retopic".into(), final_drain: true, health_probe: true, ..Default::default() };
    plan.tags.push("names".into());
    plan.tags.push("audit_lists".into());
    plan.knobs = knobs(&mut rng, true, 0);
    plan.knobs.site_mask = if rng.chance(500) { u64::MAX } else { rng.next() | rng.next() };
    plan.knobs.stall_permille = *rng.pick(&[150u32, 300, 500]);
    plan.knobs.stall_max_us = *rng.pick(&[3_000u64, 8_000]);
    plan.knobs.yield_permille = *rng.pick(&[0u32, 150, 300]);
    plan.knobs.max_yields = 2;
    let topic = topic_name("proj-t", 0);
    let other = topic_name("proj-t", 1);
    plan.phases.push(Phase { scripts: vec![vec![Step::new(Op::CreateTopic { topic: topic.clone() }), Step::new(Op::CreateTopic { topic: other.clone() })]], advance_us: 0, audit: false });
    for _ in 0..rng.range(1, 2) {
        let mut scripts = vec![
            vec![Step::after(rng.below(300), Op::DeleteTopic { topic: topic.clone() })],
            vec![Step::after(rng.below(300), Op::DeleteTopic { topic: topic.clone() })],
        ];
        let mut again = Vec::new();
        for _ in 0..rng.range(1, 3) {
            again.push(Step::after(rng.below(3) * rng.below(2_500), Op::CreateTopic { topic: topic.clone() }));
        }
        if rng.chance(400) {
            again.push(Step::after(rng.below(2_000), Op::GetTopic { topic: topic.clone() }));
        }
        scripts.push(again);
        plan.phases.push(Phase { scripts, advance_us: 0, audit: true });
        let mut s = vec![Step::new(Op::GetTopic { topic: topic.clone() })];
        s.push(Step::new(Op::Walk { kind: ListKind::Topics, parent: "projects/proj-t".into(), page_size: *rng.pick(&[1i32, 1000]) }));
        if rng.chance(500) {
            s.push(Step::new(Op::Publish { topic: topic.clone(), msgs: msgs(&mut rng, 1, false) }));
        }
        if rng.chance(500) {
            s.push(Step::new(Op::CreateTopic { topic: topic.clone() }));
            s.push(Step::new(Op::GetTopic { topic: topic.clone() }));
        }
        plan.phases.push(Phase { scripts: vec![s], advance_us: 0, audit: true });
    }
    plan
}

// ------------------------------------------------------------------------------------------------
// F-timer: several deliveries with different deadlines on one subscription, one of them moved
// (extended or cut short) by ModifyAckDeadline, another one handed out afterwards; then nothing but
// a parked consumer: every lease must end at its own deadline, whatever the expiry timer was armed for.
// ------------------------------------------------------------------------------------------------

pub fn f_timer(seed: u64) -> Plan {
    let mut rng = Rng::new(seed);
    let mut plan = Plan { seed, family: "timer".into(), final_drain: true, health_probe: false, ..Default::default() };
    plan.tags.push("double_audit".into());
    plan.knobs = knobs(&mut rng, false, 0);
    let topic = topic_name("proj-i", 0);
    let sub = sub_name("proj-i", 0, 0);
    let dl = *rng.pick(&[10i32, 10, 20]);
    if rng.chance(200) {
        // a trickle: many deliveries handed out a few tens of ms apart over seconds - a long chain of
        // deadlines each close to the next - then a parked consumer: the first ones come back when
        // *their* deadline is reached, not when the chain ends
        let n = rng.range(30, 70);
        let gap = rng.range(30, 90) * 1_000;
        plan.phases.push(Phase {
            scripts: vec![vec![
                Step::new(Op::CreateTopic { topic: topic.clone() }),
                Step::new(Op::CreateSub { sub: sub.clone(), topic: topic.clone(), ack_deadline: dl, push: None }),
                Step::new(Op::PublishMany { topic: topic.clone(), count: n as u32 }),
            ]],
            advance_us: rng.below(400_000),
            audit: false,
        });
        let mut s = Vec::new();
        for _ in 0..n {
            s.push(Step::after(gap, Op::Pull { sub: sub.clone(), max: 1, immediate: true }));
        }
        plan.phases.push(Phase { scripts: vec![s], advance_us: 0, audit: false });
        let elapsed = n * gap + 100_000;
        let park = Op::PullBg { slot: 1, sub: sub.clone(), max: 1000 };
        plan.phases.push(Phase { scripts: vec![vec![Step::new(park)]], advance_us: ((dl as u64) * 1_000_000 + 1_300_000).saturating_sub(elapsed), audit: false });
        plan.phases.push(Phase { scripts: vec![], advance_us: 0, audit: true });
        plan.phases.push(Phase { scripts: vec![vec![Step::new(Op::PullBg { slot: 2, sub: sub.clone(), max: 1000 })]], advance_us: 5_000_000, audit: true });
        plan.phases.push(Phase { scripts: vec![], advance_us: 0, audit: true });
        return plan;
    }
    plan.phases.push(Phase {
        scripts: vec![vec![
            Step::new(Op::CreateTopic { topic: topic.clone() }),
            Step::new(Op::CreateSub { sub: sub.clone(), topic: topic.clone(), ack_deadline: dl, push: None }),
            Step::new(Op::Publish { topic: topic.clone(), msgs: msgs_r(&mut rng, 2, 4, false) }),
        ]],
        advance_us: rng.below(400_000),
        audit: false,
    });
    // delivery A, its deadline moved; delivery B (and maybe C) handed out before or after that
    // (a quarter of the runs: an "extension" that lands exactly on the deadline the lease already has -
    // k whole seconds after the hand-out, by ack_deadline - k seconds)
    let same = rng.chance(250);
    let k = rng.below(dl as u64 - 1);
    let moved = if same { dl - k as i32 } else { *rng.pick(&[30i32, 60, 120, 600, 2, 5]) };
    let mut s = vec![Step::new(Op::Pull { sub: sub.clone(), max: 1, immediate: true })];
    let b_first = !same && rng.chance(300);
    if b_first {
        s.push(Step::after(rng.range(100, 4_000) * 1_000, Op::Pull { sub: sub.clone(), max: 1, immediate: true }));
    }
    s.push(Step::after(if same { k * 1_000_000 } else { rng.range(0, 3_000) * 1_000 }, Op::ModAck { sub: sub.clone(), sel: sel_any(Pick::Nth(0)), secs: moved }));
    if !b_first || rng.chance(500) {
        s.push(Step::after(rng.range(100, 5_000) * 1_000, Op::Pull { sub: sub.clone(), max: 1, immediate: true }));
    }
    plan.phases.push(Phase { scripts: vec![s], advance_us: 0, audit: true });
    // a consumer parks; then only the clock moves, in steps, with an audit after each
    let park = if rng.chance(300) {
        Op::StreamOpen { slot: 1, sub: sub.clone(), max_msgs: 0, max_bytes: 0, policy: StreamPolicy::Hold, window: 0, stall_after: 0, stall_us: 0 }
    } else {
        Op::PullBg { slot: 1, sub: sub.clone(), max: *rng.pick(&[1i32, 10]) }
    };
    plan.phases.push(Phase { scripts: vec![vec![Step::new(park)]], advance_us: (dl as u64) * 1_000_000 + 1_500_000, audit: true });
    plan.phases.push(Phase { scripts: vec![], advance_us: *rng.pick(&[3_000_000u64, 8_000_000, 15_000_000]), audit: true });
    if rng.chance(500) {
        // a second consumer for what comes back later
        plan.phases.push(Phase { scripts: vec![vec![Step::new(Op::PullBg { slot: 2, sub: sub.clone(), max: 10 })]], advance_us: (moved.min(130) as u64) * 1_000_000, audit: true });
        plan.phases.push(Phase { scripts: vec![], advance_us: 0, audit: true });
    }
    plan
}

// ------------------------------------------------------------------------------------------------
// F-manytopics: a server that has created many topics in its lifetime (also by deleting and
// re-creating names), with a dozen or more messages on an early one and a few on late ones:
// message IDs stay unique across topics whatever their textual form.
// ------------------------------------------------------------------------------------------------

pub fn f_manytopics(seed: u64) -> Plan {
    let mut rng = Rng::new(seed);
    let mut plan = Plan { seed, family: "manytopics".into(), final_drain: true, health_probe: false, ..Default::default() };
    plan.knobs = knobs(&mut rng, false, 0);
    let n = rng.range(21, 34) as usize;
    let mut setup = Vec::new();
    let mut names: Vec<String> = Vec::new();
    for i in 0..n {
        // a few names are created, deleted and created again (each creation is a new topic)
        let name = if i > 3 && rng.chance(150) { names[rng.below(names.len() as u64) as usize].clone() } else { topic_name("proj-g", i) };
        if names.contains(&name) {
            setup.push(Step::new(Op::DeleteTopic { topic: name.clone() }));
        } else {
            names.push(name.clone());
        }
        setup.push(Step::new(Op::CreateTopic { topic: name }));
    }
    plan.phases.push(Phase { scripts: vec![setup], advance_us: 0, audit: false });
    // subscriptions on a handful of them: the earliest ones and the latest ones
    let mut chosen: Vec<String> = vec![names[0].clone(), names[1].clone(), names[names.len() - 1].clone(), names[names.len() - 2].clone()];
    chosen.push(rng.pick(&names).clone());
    chosen.sort();
    chosen.dedup();
    let mut s = Vec::new();
    for (j, t) in chosen.iter().enumerate() {
        s.push(Step::new(Op::CreateSub { sub: sub_name("proj-g", 0, j), topic: t.clone(), ack_deadline: 10, push: None }));
    }
    plan.phases.push(Phase { scripts: vec![s], advance_us: 0, audit: false });
    let mut scripts = Vec::new();
    for t in chosen.iter() {
        let mut s = Vec::new();
        for _ in 0..rng.range(1, 3) {
            s.push(Step::after(rng.below(2_000), Op::Publish { topic: t.clone(), msgs: msgs_r(&mut rng, 1, 9, false) }));
        }
        scripts.push(s);
    }
    plan.phases.push(Phase { scripts, advance_us: 0, audit: false });
    plan.phases.push(Phase { scripts: (0..chosen.len()).map(|j| vec![Step::new(Op::DrainPull { sub: sub_name("proj-g", 0, j) })]).collect(), advance_us: 0, audit: false });
    plan
}

// ------------------------------------------------------------------------------------------------
// F-burst-edge: a burst of concurrent requests that fills a subscription's mailbox at the very
// instant one of its leases runs out (the actor's expiry timer fires while requests are queued).
// ------------------------------------------------------------------------------------------------

pub fn f_burst_edge(seed: u64) -> Plan {
    let mut rng = Rng::new(seed);
    let mut plan = Plan { seed, family: "burst_edge".into(), final_drain: true, health_probe: true, ..Default::default() };
    plan.knobs = knobs(&mut rng, false, 0);
    let topic = topic_name("proj-u", 0);
    let sub = sub_name("proj-u", 0, 0);
    let dl = *rng.pick(&[10i32, 10, 12]);
    plan.phases.push(Phase {
        scripts: vec![vec![
            Step::new(Op::CreateTopic { topic: topic.clone() }),
            Step::new(Op::CreateSub { sub: sub.clone(), topic: topic.clone(), ack_deadline: dl, push: None }),
            Step::new(Op::Publish { topic: topic.clone(), msgs: msgs_r(&mut rng, 1, 3, false) }),
            Step::after(rng.below(300_000), Op::Pull { sub: sub.clone(), max: *rng.pick(&[1i32, 1000]), immediate: true }),
        ]],
        advance_us: 0,
        audit: false,
    });
    let mut scripts: Vec<Vec<Step>> = Vec::new();
    let n = rng.range(18, 64);
    let base = *rng.pick(&[-1_000i64, -1_000, -500, 0, -2_000]);
    for _ in 0..n {
        let offset = if rng.chance(700) { base } else { base + *rng.pick(&[-1_000i64, 1_000, 0]) };
        let op = match rng.below(6) {
            0 | 1 => Op::Ack { sub: sub.clone(), sel: Sel { mine: false, pick: Pick::None, extra: vec!["616161".into()], ..Sel::none() } },
            2 => Op::ModAck { sub: sub.clone(), sel: Sel { mine: false, pick: Pick::None, extra: vec!["616162".into()], ..Sel::none() }, secs: 10 },
            // a request about a live delivery in the middle of the burst: it is served like any other
            5 => Op::ModAck { sub: sub.clone(), sel: sel_any(Pick::LastN(1)), secs: *rng.pick(&[30i32, 30, 0]) },
            3 => Op::Pull { sub: sub.clone(), max: 0, immediate: true },
            _ => Op::GetSub { sub: sub.clone() },
        };
        scripts.push(vec![Step::new(Op::SleepUntilLeaseEnd { sub: sub.clone(), nth: 0, secs: dl, offset_us: offset, from_invoke: false }), Step::new(op)]);
    }
    if rng.chance(500) {
        scripts.push(vec![Step::new(Op::PullBg { slot: 1, sub: sub.clone(), max: 10 })]);
    }
    plan.phases.push(Phase { scripts, advance_us: 0, audit: true });
    // afterwards the subscription and its topic still answer
    plan.phases.push(Phase {
        scripts: vec![vec![
            Step::new(Op::Publish { topic: topic.clone(), msgs: msgs(&mut rng, 1, false) }),
            Step::new(Op::Pull { sub: sub.clone(), max: 1000, immediate: true }),
            Step::new(Op::GetSub { sub: sub.clone() }),
        ]],
        advance_us: *rng.pick(&[0u64, 2_000_000]),
        audit: true,
    });
    plan
}

// ------------------------------------------------------------------------------------------------
// F-lease-stream: deadlines set and re-set through StreamingPull control messages, with quiet
// periods on the request side in between; the stream itself receives the redeliveries.
// ------------------------------------------------------------------------------------------------

pub fn f_lease_stream(seed: u64) -> Plan {
    let mut rng = Rng::new(seed);
    let mut plan = Plan { seed, family: "lease_stream".into(), final_drain: true, health_probe: false, ..Default::default() };
    plan.tags.push("double_audit".into());
    plan.knobs = knobs(&mut rng, false, 0);
    let topic = topic_name("proj-z", 0);
    let sub = sub_name("proj-z", 0, 0);
    let dl = *rng.pick(&[10i32, 10, 20, 60]);
    plan.phases.push(Phase {
        scripts: vec![vec![
            Step::new(Op::CreateTopic { topic: topic.clone() }),
            Step::new(Op::CreateSub { sub: sub.clone(), topic: topic.clone(), ack_deadline: dl, push: None }),
            Step::new(Op::StreamOpen { slot: 1, sub: sub.clone(), max_msgs: 0, max_bytes: 0, policy: StreamPolicy::Hold, window: 0, stall_after: 0, stall_us: 0 }),
        ]],
        advance_us: rng.below(3_000_000),
        audit: false,
    });
    plan.phases.push(Phase { scripts: vec![vec![Step::new(Op::Publish { topic: topic.clone(), msgs: msgs_r(&mut rng, 1, 4, false) })]], advance_us: rng.below(2_000_000), audit: true });
    // a sequence of control messages, each followed by a barrier (so it is certainly processed)
    // and a quiet period
    let frame = |rng: &mut Rng, secs: i32| {
        // some frames also acknowledge another delivery and / or carry a stream deadline update
        let modack = sel_any(rng.pick(&[Pick::All, Pick::LastN(1), Pick::Nth(0)]).clone());
        let ack = if modack.pick == Pick::LastN(1) && rng.chance(400) { sel_any(Pick::Nth(0)) } else { Sel::none() };
        Op::StreamSend { slot: 1, ack, modack, modack_secs: secs, raw_sub: String::new(), raw_max_msgs: 0, raw_max_bytes: 0, extra_secs: vec![], secs_pattern: vec![], stream_secs: *rng.pick(&[0i32, 0, 0, 10, 60, 600]) }
    };
    let first = *rng.pick(&[30i32, 60, 120, 600]);
    plan.phases.push(Phase { scripts: vec![vec![Step::new(frame(&mut rng, first))]], advance_us: *rng.pick(&[5_000_000u64, 20_000_000, 40_000_000]).min(&((first as u64 - 5) * 1_000_000)), audit: true });
    for _ in 0..rng.range(1, 3) {
        let secs = *rng.pick(&[5i32, 15, 30, 60, 90, 600]);
        let quiet = *rng.pick(&[1_000_000u64, 4_000_000, 12_000_000, 25_000_000, 50_000_000]);
        if rng.chance(350) {
            // two control messages back to back for the same delivery: the later one must win
            let other = *rng.pick(&[5i32, 20, 45, 120, 600]);
            let a = Op::StreamSend { slot: 1, ack: if rng.chance(700) { sel_any(Pick::Nth(0)) } else { Sel::none() }, modack: sel_any(Pick::LastN(1)), modack_secs: other, raw_sub: String::new(), raw_max_msgs: 0, raw_max_bytes: 0, extra_secs: vec![], secs_pattern: vec![], stream_secs: 0 };
            let b = Op::StreamSend { slot: 1, ack: Sel::none(), modack: sel_any(Pick::LastN(1)), modack_secs: secs, raw_sub: String::new(), raw_max_msgs: 0, raw_max_bytes: 0, extra_secs: vec![], secs_pattern: vec![], stream_secs: 0 };
            plan.phases.push(Phase { scripts: vec![vec![Step::new(a), Step::new(b)]], advance_us: quiet, audit: true });
        } else {
            plan.phases.push(Phase { scripts: vec![vec![Step::new(frame(&mut rng, secs))]], advance_us: quiet, audit: true });
        }
    }
    // an ack frame after a quiet period, then silence past every deadline
    if rng.chance(500) {
        plan.phases.push(Phase { scripts: vec![vec![Step::new(Op::StreamSend { slot: 1, ack: sel_any(Pick::Nth(0)), modack: Sel::none(), modack_secs: 0, raw_sub: String::new(), raw_max_msgs: 0, raw_max_bytes: 0, extra_secs: vec![], secs_pattern: vec![], stream_secs: *rng.pick(&[0i32, 0, 30]) })]], advance_us: 0, audit: true });
    }
    plan.phases.push(Phase { scripts: vec![], advance_us: *rng.pick(&[0u64, 30_000_000, 700_000_000]), audit: true });
    plan.phases.push(Phase { scripts: vec![], advance_us: 0, audit: true });
    plan
}

// ------------------------------------------------------------------------------------------------
// F-stalled: a slow consumer. One StreamingPull client stops reading its responses (its response
// pipe - the HTTP/2 window - fills up and the handler stays suspended where it yields), while
// other consumers wait on the same subscription and messages become available.
// ------------------------------------------------------------------------------------------------

pub fn f_stalled(seed: u64) -> Plan {
    let mut rng = Rng::new(seed);
    let mut plan = Plan { seed, family: "stalled".into(), final_drain: true, health_probe: true, ..Default::default() };
    plan.tags.push("double_audit".into());
    plan.knobs = knobs(&mut rng, false, 0);
    let topic = topic_name("proj-w", 0);
    let sub = sub_name("proj-w", 0, 0);
    let dl = *rng.pick(&[10i32, 60, 600, 600]);
    let window = rng.range(1, 3) as u32;
    let stall_after = rng.below(2) as u32;
    let stall_us = *rng.pick(&[30_000_000u64, 90_000_000, 200_000_000]);
    let policy = if rng.chance(500) { StreamPolicy::Hold } else { StreamPolicy::AckAll };
    plan.phases.push(Phase {
        scripts: vec![vec![
            Step::new(Op::CreateTopic { topic: topic.clone() }),
            Step::new(Op::CreateSub { sub: sub.clone(), topic: topic.clone(), ack_deadline: dl, push: None }),
            Step::new(Op::StreamOpen { slot: 1, sub: sub.clone(), max_msgs: *rng.pick(&[0i64, 0, 1]), max_bytes: 0, policy, window, stall_after, stall_us }),
        ]],
        advance_us: rng.below(100_000),
        audit: false,
    });
    // fill the pipe: one response per Publish
    let n_fill = window + stall_after + rng.below(2) as u32;
    let mut fill = Vec::new();
    for _ in 0..n_fill {
        fill.push(Step::after(rng.range(1, 6) * 1_000, Op::Publish { topic: topic.clone(), msgs: msgs_r(&mut rng, 1, 2, false) }));
    }
    plan.phases.push(Phase { scripts: vec![fill], advance_us: rng.below(50_000), audit: true });
    // the others arrive and wait
    let mut scripts = Vec::new();
    let mut slot = 2u32;
    for _ in 0..rng.range(1, 3) {
        if rng.chance(650) {
            scripts.push(vec![Step::after(rng.below(3_000), Op::PullBg { slot, sub: sub.clone(), max: *rng.pick(&[1i32, 10, 1000]) })]);
        } else {
            scripts.push(vec![Step::after(rng.below(3_000), Op::StreamOpen { slot, sub: sub.clone(), max_msgs: 0, max_bytes: 0, policy: if rng.chance(500) { StreamPolicy::Hold } else { StreamPolicy::AckAll }, window: 0, stall_after: 0, stall_us: 0 })]);
        }
        slot += 1;
    }
    plan.phases.push(Phase { scripts, advance_us: rng.below(50_000), audit: true });
    // messages become available while the slow client is still not reading
    for _ in 0..rng.range(1, 3) {
        let mut scripts = Vec::new();
        match rng.below(4) {
            0 | 1 | 2 => scripts.push(vec![Step::after(rng.below(3_000), Op::Publish { topic: topic.clone(), msgs: msgs_r(&mut rng, 1, 2, false) })]),
            _ => scripts.push(vec![Step::after(rng.below(3_000), Op::ModAck { sub: sub.clone(), sel: sel_any(Pick::LastN(1)), secs: 0 })]),
        }
        if rng.chance(300) {
            scripts.push(vec![Step::after(rng.below(3_000), Op::PullBg { slot, sub: sub.clone(), max: 1 })]);
            slot += 1;
        }
        plan.phases.push(Phase { scripts, advance_us: *rng.pick(&[0u64, 0, 2_000_000, (dl as u64) * 1_000_000 + 500_000]), audit: true });
        plan.phases.push(Phase { scripts: vec![], advance_us: 0, audit: true });
    }
    // the slow client resumes
    plan.phases.push(Phase { scripts: vec![], advance_us: stall_us, audit: true });
    plan.phases.push(Phase { scripts: vec![vec![Step::new(Op::Publish { topic: topic.clone(), msgs: msgs_r(&mut rng, 1, 2, false) })]], advance_us: 0, audit: true });
    plan
}

// ------------------------------------------------------------------------------------------------
// F-edge: a request that reaches the subscription at the very instant a lease runs out (the
// actor's expiry timer and its mailbox become ready in the same wake-up), with a consumer waiting.
// ------------------------------------------------------------------------------------------------

pub fn f_edge(seed: u64) -> Plan {
    let mut rng = Rng::new(seed);
    let mut plan = Plan { seed, family: "edge".into(), final_drain: true, health_probe: false, ..Default::default() };
    plan.tags.push("double_audit".into());
    plan.knobs = knobs(&mut rng, false, 0);
    // in a share of the runs the actor (or the request on its way) is held up for a few ms at a
    // schedule point, so that a request issued shortly before the lease ends is handled after it
    let stalls = rng.chance(400);
    if stalls {
        plan.knobs.site_mask = match rng.below(4) {
            0 => u64::MAX,
            1 => rng.next() | rng.next(),
            // only the subscription actor is slow (the schedule point at the top of its loop)
            _ => 1u64 << (crate::rng::fnv_str("subscription_actor.loop") % 64),
        };
        plan.knobs.stall_permille = *rng.pick(&[150u32, 400, 700]);
        plan.knobs.stall_max_us = *rng.pick(&[3_000u64, 8_000]);
    }
    let slow_actor_only = stalls && plan.knobs.site_mask.count_ones() == 1;
    if slow_actor_only {
        plan.knobs.stall_permille = 700;
        plan.knobs.stall_max_us = 8_000;
    }
    let topic = topic_name("proj-e", 0);
    let sub = sub_name("proj-e", 0, 0);
    let dl = *rng.pick(&[10i32, 10, 12, 20]);
    plan.phases.push(Phase {
        scripts: vec![vec![
            Step::new(Op::CreateTopic { topic: topic.clone() }),
            Step::new(Op::CreateSub { sub: sub.clone(), topic: topic.clone(), ack_deadline: dl, push: None }),
            Step::new(Op::Publish { topic: topic.clone(), msgs: msgs_r(&mut rng, 2, 3, false) }),
        ]],
        advance_us: rng.below(500_000),
        audit: false,
    });
    // the first delivery, and some seconds later a second one (another message, a later lease end)
    plan.phases.push(Phase {
        scripts: vec![vec![
            Step::new(Op::Pull { sub: sub.clone(), max: 1, immediate: true }),
            Step::after(rng.range(1, 6) * 1_000_000, Op::Pull { sub: sub.clone(), max: 1, immediate: true }),
        ]],
        advance_us: 0,
        audit: false,
    });
    let mut scripts = Vec::new();
    let mut slot = 1u32;
    for _ in 0..rng.range(1, 2) {
        if rng.chance(700) {
            scripts.push(vec![Step::new(Op::PullBg { slot, sub: sub.clone(), max: *rng.pick(&[1i32, 1000]) })]);
        } else {
            scripts.push(vec![Step::new(Op::StreamOpen { slot, sub: sub.clone(), max_msgs: 0, max_bytes: 0, policy: StreamPolicy::Hold, window: 0, stall_after: 0, stall_us: 0 })]);
        }
        slot += 1;
    }
    // the request that arrives when the first lease ends
    let offset = if slow_actor_only { *rng.pick(&[-1_000i64, -2_000]) } else if stalls { *rng.pick(&[-1_000i64, -2_000, -4_000, -7_000, 0, -1]) } else { *rng.pick(&[0i64, 0, 0, 0, -1, 1, -1_000, 1_000, 999, -999]) };
    let op = match if stalls && rng.chance(500) { 4 } else { rng.below(8) } {
        0 | 1 | 2 => Op::Ack { sub: sub.clone(), sel: sel_any(Pick::Nth(1)) },
        3 => Op::ModAck { sub: sub.clone(), sel: sel_any(Pick::Nth(1)), secs: *rng.pick(&[0i32, 30]) },
        4 => Op::Ack { sub: sub.clone(), sel: sel_any(Pick::Nth(0)) },
        5 => Op::ModAck { sub: sub.clone(), sel: sel_any(Pick::Nth(0)), secs: *rng.pick(&[0i32, 20]) },
        6 => Op::Ack { sub: sub.clone(), sel: Sel { mine: false, pick: Pick::None, extra: vec!["515151".into()], ..Sel::none() } },
        _ => Op::Publish { topic: topic.clone(), msgs: msgs(&mut rng, 1, false) },
    };
    let mut edge = vec![Step::new(Op::SleepUntilLeaseEnd { sub: sub.clone(), nth: 0, secs: dl, offset_us: offset, from_invoke: stalls })];
    if stalls && rng.chance(700) {
        // another client's request a few ms ahead of it: the actor may be held up (schedule point at
        // the top of its loop) right after handling that one, across the end of the lease
        let ahead = offset - if slow_actor_only { *rng.pick(&[1_000i64, 2_000]) } else { *rng.pick(&[1_000i64, 2_000, 3_000, 5_000]) };
        scripts.push(vec![
            Step::new(Op::SleepUntilLeaseEnd { sub: sub.clone(), nth: 0, secs: dl, offset_us: ahead, from_invoke: true }),
            Step::new(Op::Ack { sub: sub.clone(), sel: Sel { mine: false, pick: Pick::None, extra: vec!["515150".into()], ..Sel::none() } }),
        ]);
    }
    edge.push(Step::new(op));
    if rng.chance(300) {
        edge.push(Step::new(Op::Ack { sub: sub.clone(), sel: Sel { mine: false, pick: Pick::None, extra: vec!["515152".into()], ..Sel::none() } }));
    }
    scripts.push(edge);
    plan.phases.push(Phase { scripts, advance_us: 0, audit: true });
    plan.phases.push(Phase { scripts: vec![], advance_us: *rng.pick(&[0u64, 7_000_000, 30_000_000]), audit: true });
    plan.phases.push(Phase { scripts: vec![], advance_us: 0, audit: true });
    plan
}

// ------------------------------------------------------------------------------------------------
// F-topicdelete: publishers racing a DeleteTopic on a topic that has already issued IDs.
// ------------------------------------------------------------------------------------------------

pub fn f_topicdelete(seed: u64) -> Plan {
    let mut rng = Rng::new(seed);
    let mut plan = Plan { seed, family: "topicdelete".into(), final_drain: true, health_probe: true, ..Default::default() };
    plan.knobs = knobs(&mut rng, true, 0);
    let topic = topic_name("proj-t", 0);
    let sub = sub_name("proj-t", 0, 0);
    plan.phases.push(Phase {
        scripts: vec![vec![
            Step::new(Op::CreateTopic { topic: topic.clone() }),
            Step::new(Op::CreateSub { sub: sub.clone(), topic: topic.clone(), ack_deadline: 10, push: None }),
            Step::new(Op::Publish { topic: topic.clone(), msgs: msgs_r(&mut rng, 1, 4, false) }),
            Step::new(Op::Publish { topic: topic.clone(), msgs: msgs_r(&mut rng, 1, 4, false) }),
        ]],
        advance_us: rng.below(500_000),
        audit: false,
    });
    let mut scripts: Vec<Vec<Step>> = Vec::new();
    let n = rng.range(2, 8);
    let del_pos = rng.below(n);
    for i in 0..n {
        if i == del_pos {
            scripts.push(vec![Step::after(rng.below(2) * rng.below(300), Op::DeleteTopic { topic: topic.clone() })]);
        }
        let mut s = Vec::new();
        for _ in 0..rng.range(1, 2) {
            s.push(Step::after(rng.below(2) * rng.below(300), Op::Publish { topic: topic.clone(), msgs: msgs_r(&mut rng, 1, 3, false) }));
        }
        scripts.push(s);
    }
    plan.phases.push(Phase { scripts, advance_us: 0, audit: true });
    // the orphaned subscription still serves what it got
    plan.phases.push(Phase { scripts: vec![vec![Step::new(Op::Pull { sub: sub.clone(), max: 1000, immediate: true })]], advance_us: 0, audit: false });
    plan
}
