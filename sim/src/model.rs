//! Index over a recorded history: calls, deliveries, published messages, resource instances,
//! streams, push posts, barriers. Oracles are written against this.
use crate::log::*;
use crate::plan::PushSpec;
use std::collections::{BTreeMap, HashMap};

#[derive(Clone, Debug)]
pub struct Call {
    pub id: u32,
    pub client: u32,
    pub req: Req,
    pub abandon_at: u32,
    pub inv_seq: u64,
    pub inv_t: u64,
    pub ret_seq: Option<u64>,
    pub ret_t: Option<u64>,
    pub out: Option<Outcome>,
}

impl Call {
    pub fn returned_ok(&self) -> bool {
        matches!(self.out, Some(Outcome::Ok(_)))
    }
    pub fn code(&self) -> Option<Code> {
        self.out.as_ref().and_then(|o| o.code())
    }
    /// The call may have taken effect on the server: anything but a definite rejection. An
    /// error that only says "the resource went away under me" (FAILED_PRECONDITION / INTERNAL,
    /// what deltio answers when an actor's mailbox is closed) leaves the effect open: a create
    /// that raced a delete of the same name did create something.
    pub fn maybe_effective(&self) -> bool {
        match &self.out {
            Some(Outcome::Err(code, _)) => *code == FAILED_PRECONDITION || *code == INTERNAL,
            _ => true,
        }
    }
    pub fn ret_seq_or_max(&self) -> u64 {
        self.ret_seq.unwrap_or(u64::MAX)
    }
    /// Until when the call may still take effect: its reply, if it got a definite one; a call
    /// whose client went away (or that hung) may take effect at any later time.
    pub fn effect_end_seq(&self) -> u64 {
        match &self.out {
            Some(Outcome::Ok(_)) | Some(Outcome::Err(_, _)) => self.ret_seq.unwrap_or(u64::MAX),
            _ => u64::MAX,
        }
    }
}

#[derive(Clone, Debug, PartialEq)]
pub enum Via {
    Pull { call: u32 },
    Stream { slot: u32 },
    Push { post: u32 },
}

#[derive(Clone, Copy, Debug, PartialEq, Eq, PartialOrd, Ord)]
pub enum Stage {
    Run,
    Drain,
    Health,
}

#[derive(Clone, Debug)]
pub struct Delivery {
    pub idx: usize,
    pub sub: String,
    pub recv: Recv,
    pub via: Via,
    /// Earliest possible hand-out (sequence number; 0 = unknown, use time).
    pub lo_seq: u64,
    pub lo_t: u64,
    pub recv_seq: u64,
    pub recv_t: u64,
    /// Responses are numbered; `pos` is the position inside the response.
    pub response: usize,
    pub pos: usize,
    pub stage: Stage,
}

#[derive(Clone, Debug)]
pub struct Published {
    pub call: u32,
    pub topic: String,
    pub idx: usize,
    pub token: String,
    pub msg_id: Option<String>,
    pub data_hash: u64,
    pub data_len: u64,
    pub attrs_hash: u64,
    pub attrs_len: u64,
    pub stage: Stage,
}

#[derive(Clone, Debug)]
pub struct SubInst {
    pub name: String,
    pub topic: String,
    pub ack_deadline_req: i32,
    pub push: Option<PushSpec>,
    pub create_call: u32,
    /// Sequence number from which the subscription counts as created: the create's OK reply, or -
    /// for a create whose caller went away - the first quiescent barrier after another request
    /// saw it exist (GetSubscription OK, CreateSubscription ALREADY_EXISTS).
    pub established_seq: u64,
}

impl SubInst {
    pub fn deadline_us(&self) -> u64 {
        (self.ack_deadline_req.max(10) as u64) * 1_000_000
    }
}

#[derive(Clone, Debug, Default)]
pub struct StreamInfo {
    pub slot: u32,
    pub client: u32,
    pub sub: String,
    pub max_msgs: i64,
    pub open_seq: u64,
    pub open_t: u64,
    pub started: Option<(u64, u64, Code)>,
    pub items: Vec<(u64, u64, usize)>,
    pub end: Option<(u64, u64, StreamEnd)>,
    pub close_req: Option<(u64, u64)>,
    /// (seq, t, acks, modacks, secs, hostile)
    pub sends: Vec<(u64, u64, Vec<String>, Vec<String>, Vec<i32>, bool)>,
    /// Intervals (seq) during which the client of a windowed stream was not reading.
    pub stalls: Vec<(u64, Option<u64>)>,
    /// Response pipe of this many responses (0 = read as produced).
    pub window: u32,
}

#[derive(Clone, Debug)]
pub struct PostInfo {
    pub post: u32,
    pub seq: u64,
    pub t: u64,
    pub url: String,
    pub sub: String,
    pub parse_ok: bool,
    pub recv: Recv,
    pub msg_id_dupe: String,
    pub content_type: String,
    /// (seq, t, status, never)
    pub answer: Option<(u64, u64, Option<u16>, bool)>,
}

impl PostInfo {
    pub fn accepted(&self) -> bool {
        matches!(self.answer, Some((_, _, Some(s), false)) if matches!(s, 102 | 200 | 201 | 202 | 204))
    }
}

#[derive(Clone, Debug)]
pub struct BarrierInfo {
    pub seq: u64,
    pub t: u64,
    pub phase: u32,
    pub quiescent: bool,
}

#[derive(Clone, Debug)]
pub struct StatsInfo {
    pub seq: u64,
    pub t: u64,
    pub sub: String,
    pub found: bool,
    pub backlog: u64,
    pub outstanding: u64,
    pub topic: String,
}

pub struct Model<'a> {
    pub events: &'a [Event],
    pub calls: BTreeMap<u32, Call>,
    pub deliveries: Vec<Delivery>,
    pub published: Vec<Published>,
    pub by_msg_id: HashMap<String, Vec<usize>>,
    pub by_token: HashMap<String, usize>,
    pub sub_creates: BTreeMap<String, Vec<u32>>,
    pub sub_deletes: BTreeMap<String, Vec<u32>>,
    pub topic_creates: BTreeMap<String, Vec<u32>>,
    pub topic_deletes: BTreeMap<String, Vec<u32>>,
    pub streams: BTreeMap<u32, StreamInfo>,
    pub posts: BTreeMap<u32, PostInfo>,
    pub barriers: Vec<BarrierInfo>,
    pub stats: Vec<StatsInfo>,
    pub registries: Vec<(u64, Vec<String>)>,
    pub cancel_bg: BTreeMap<u32, u64>,
    pub drain_start: Option<(u64, u64)>,
    pub drain_end: Option<(u64, u64)>,
    pub health_start: Option<(u64, u64)>,
    pub faults_off: Option<(u64, u64)>,
    pub end_t: u64,
    /// deliveries grouped per (sub, msg_id)
    pub deliveries_by_key: HashMap<(String, String), Vec<usize>>,
    /// ack id -> delivery index, per sub
    pub delivery_by_ack: HashMap<(String, String), Vec<usize>>,
}

impl<'a> Model<'a> {
    pub fn build(events: &'a [Event]) -> Model<'a> {
        let mut m = Model {
            events,
            calls: BTreeMap::new(),
            deliveries: Vec::new(),
            published: Vec::new(),
            by_msg_id: HashMap::new(),
            by_token: HashMap::new(),
            sub_creates: BTreeMap::new(),
            sub_deletes: BTreeMap::new(),
            topic_creates: BTreeMap::new(),
            topic_deletes: BTreeMap::new(),
            streams: BTreeMap::new(),
            posts: BTreeMap::new(),
            barriers: Vec::new(),
            stats: Vec::new(),
            registries: Vec::new(),
            cancel_bg: BTreeMap::new(),
            drain_start: None,
            drain_end: None,
            health_start: None,
            faults_off: None,
            end_t: events.last().map(|e| e.t_us).unwrap_or(0),
            deliveries_by_key: HashMap::new(),
            delivery_by_ack: HashMap::new(),
        };
        let mut stage = Stage::Run;
        let mut response_no = 0usize;
        for e in events {
            match &e.ev {
                Ev::DrainStart => {
                    stage = Stage::Drain;
                    m.drain_start = Some((e.seq, e.t_us));
                }
                Ev::DrainEnd => m.drain_end = Some((e.seq, e.t_us)),
                Ev::HealthStart => {
                    stage = Stage::Health;
                    m.health_start = Some((e.seq, e.t_us));
                }
                Ev::EndpointFaultsOff => {
                    if m.faults_off.is_none() {
                        m.faults_off = Some((e.seq, e.t_us));
                    }
                }
                Ev::Invoke { call, req, abandon_at } => {
                    m.calls.insert(
                        *call,
                        Call { id: *call, client: e.client, req: req.clone(), abandon_at: *abandon_at, inv_seq: e.seq, inv_t: e.t_us, ret_seq: None, ret_t: None, out: None },
                    );
                    match req {
                        Req::CreateSub { sub, .. } => m.sub_creates.entry(sub.clone()).or_default().push(*call),
                        Req::DeleteSub { sub } => m.sub_deletes.entry(sub.clone()).or_default().push(*call),
                        Req::CreateTopic { topic } => m.topic_creates.entry(topic.clone()).or_default().push(*call),
                        Req::DeleteTopic { topic } => m.topic_deletes.entry(topic.clone()).or_default().push(*call),
                        Req::Publish { topic, tokens, data_hash, data_len, attrs_hash, attrs_len } => {
                            for (i, tok) in tokens.iter().enumerate() {
                                let idx = m.published.len();
                                m.published.push(Published {
                                    call: *call,
                                    topic: topic.clone(),
                                    idx: i,
                                    token: tok.clone(),
                                    msg_id: None,
                                    data_hash: data_hash[i],
                                    data_len: data_len[i],
                                    attrs_hash: attrs_hash[i],
                                    attrs_len: attrs_len[i],
                                    stage,
                                });
                                m.by_token.insert(tok.clone(), idx);
                            }
                        }
                        _ => {}
                    }
                }
                Ev::Return { call, out } => {
                    let (req, inv_seq, inv_t) = {
                        let c = m.calls.get_mut(call).expect("return without invoke");
                        c.ret_seq = Some(e.seq);
                        c.ret_t = Some(e.t_us);
                        c.out = Some(out.clone());
                        (c.req.clone(), c.inv_seq, c.inv_t)
                    };
                    match (&req, out) {
                        (Req::Publish { tokens, .. }, Outcome::Ok(Resp::Published(ids))) => {
                            for (i, tok) in tokens.iter().enumerate() {
                                if let (Some(pi), Some(id)) = (m.by_token.get(tok).cloned(), ids.get(i)) {
                                    m.published[pi].msg_id = Some(id.clone());
                                    m.by_msg_id.entry(id.clone()).or_default().push(pi);
                                }
                            }
                        }
                        (Req::Pull { sub, .. }, Outcome::Ok(Resp::Pulled(recvs))) => {
                            response_no += 1;
                            for (pos, r) in recvs.iter().enumerate() {
                                let idx = m.deliveries.len();
                                m.deliveries.push(Delivery {
                                    idx,
                                    sub: sub.clone(),
                                    recv: r.clone(),
                                    via: Via::Pull { call: *call },
                                    lo_seq: inv_seq,
                                    lo_t: inv_t,
                                    recv_seq: e.seq,
                                    recv_t: e.t_us,
                                    response: response_no,
                                    pos,
                                    stage,
                                });
                            }
                        }
                        _ => {}
                    }
                }
                Ev::StreamOpen { slot, sub, max_msgs, window, .. } => {
                    m.streams.insert(
                        *slot,
                        StreamInfo { slot: *slot, client: e.client, sub: sub.clone(), max_msgs: *max_msgs, open_seq: e.seq, open_t: e.t_us, window: *window, ..Default::default() },
                    );
                }
                Ev::StreamStarted { slot, code } => {
                    if let Some(s) = m.streams.get_mut(slot) {
                        s.started = Some((e.seq, e.t_us, *code));
                    }
                }
                Ev::StreamItem { slot, recvs } => {
                    response_no += 1;
                    if let Some(s) = m.streams.get_mut(slot) {
                        let (mut lo_seq, mut lo_t) = s.items.last().map(|(a, b, _)| (*a, *b)).unwrap_or((s.open_seq, s.open_t));
                        // At a quiescent barrier an open stream's pull loop is parked; whatever it
                        // delivers later was pulled after that barrier. (Not so for a stream whose
                        // response pipe can be full: its handler may have a pull in flight - the
                        // messages leased to it - that it cannot hand over until the client reads.)
                        if let Some(b) = m.barriers.iter().rev().find(|b| b.quiescent).filter(|_| s.window == 0) {
                            if b.seq > lo_seq {
                                lo_seq = b.seq;
                                lo_t = b.t;
                            }
                        }
                        s.items.push((e.seq, e.t_us, recvs.len()));
                        let sub = s.sub.clone();
                        for (pos, r) in recvs.iter().enumerate() {
                            let idx = m.deliveries.len();
                            m.deliveries.push(Delivery {
                                idx,
                                sub: sub.clone(),
                                recv: r.clone(),
                                via: Via::Stream { slot: *slot },
                                lo_seq,
                                lo_t,
                                recv_seq: e.seq,
                                recv_t: e.t_us,
                                response: response_no,
                                pos,
                                stage,
                            });
                        }
                    }
                }
                Ev::StreamSend { slot, acks, modacks, modack_secs, hostile } => {
                    if let Some(s) = m.streams.get_mut(slot) {
                        s.sends.push((e.seq, e.t_us, acks.clone(), modacks.clone(), modack_secs.clone(), *hostile));
                    }
                }
                Ev::StreamStall { slot, on } => {
                    if let Some(s) = m.streams.get_mut(slot) {
                        if *on {
                            s.stalls.push((e.seq, None));
                        } else if let Some(last) = s.stalls.last_mut() {
                            last.1 = Some(e.seq);
                        }
                    }
                }
                Ev::StreamCloseReq { slot } => {
                    if let Some(s) = m.streams.get_mut(slot) {
                        s.close_req = Some((e.seq, e.t_us));
                    }
                }
                Ev::StreamEnd { slot, end } => {
                    if let Some(s) = m.streams.get_mut(slot) {
                        s.end = Some((e.seq, e.t_us, end.clone()));
                    }
                }
                Ev::CancelBg { slot } => {
                    m.cancel_bg.insert(*slot, e.seq);
                }
                Ev::Post { post, url, sub, parse_ok, recv, msg_id_dupe, content_type, .. } => {
                    m.posts.insert(
                        *post,
                        PostInfo {
                            post: *post,
                            seq: e.seq,
                            t: e.t_us,
                            url: url.clone(),
                            sub: sub.clone(),
                            parse_ok: *parse_ok,
                            recv: recv.clone(),
                            msg_id_dupe: msg_id_dupe.clone(),
                            content_type: content_type.clone(),
                            answer: None,
                        },
                    );
                    if *parse_ok {
                        response_no += 1;
                        let idx = m.deliveries.len();
                        m.deliveries.push(Delivery {
                            idx,
                            sub: sub.clone(),
                            recv: recv.clone(),
                            via: Via::Push { post: *post },
                            lo_seq: 0,
                            lo_t: e.t_us, // fixed up below
                            recv_seq: e.seq,
                            recv_t: e.t_us,
                            response: response_no,
                            pos: 0,
                            stage,
                        });
                    }
                }
                Ev::Answer { post, status, never } => {
                    if let Some(p) = m.posts.get_mut(post) {
                        p.answer = Some((e.seq, e.t_us, *status, *never));
                    }
                }
                Ev::Barrier { phase, quiescent } => {
                    m.barriers.push(BarrierInfo { seq: e.seq, t: e.t_us, phase: *phase, quiescent: *quiescent });
                }
                Ev::Stats { sub, found, backlog, outstanding, topic } => {
                    m.stats.push(StatsInfo { seq: e.seq, t: e.t_us, sub: sub.clone(), found: *found, backlog: *backlog, outstanding: *outstanding, topic: topic.clone() });
                }
                Ev::Registry { subs } => m.registries.push((e.seq, subs.clone())),
                _ => {}
            }
        }
        // Push deliveries: the hand-out happened at the start of the push round; the posts of a
        // round are at most ~5 ms (+ stalls) apart. Walk back through the cluster of posts for
        // the same subscription to find the earliest possible hand-out, and leave a slack.
        let mut last_post_by_sub: HashMap<String, (u64, u64)> = HashMap::new(); // sub -> (cluster start t, last t)
        for d in m.deliveries.iter_mut() {
            if let Via::Push { .. } = d.via {
                let entry = last_post_by_sub.entry(d.sub.clone()).or_insert((d.recv_t, d.recv_t));
                if d.recv_t > entry.1 + 60_000 {
                    entry.0 = d.recv_t;
                }
                entry.1 = d.recv_t;
                d.lo_t = entry.0.saturating_sub(100_000);
            }
        }
        // A message cannot have been handed out before its Publish was invoked: for a consumer that
        // was parked long before the message existed this is a much better bound than "since the
        // pull was invoked" (a lease that is dated from the request's arrival would otherwise hide
        // behind the uncertainty window).
        for i in 0..m.deliveries.len() {
            let key = m.deliveries[i].recv.msg_id.clone();
            if let Some(list) = m.by_msg_id.get(&key) {
                if list.len() == 1 {
                    let pc = &m.calls[&m.published[list[0]].call];
                    let d = &mut m.deliveries[i];
                    if pc.inv_t > d.lo_t {
                        d.lo_t = pc.inv_t.min(d.recv_t);
                    }
                    if d.lo_seq > 0 && pc.inv_seq > d.lo_seq {
                        d.lo_seq = pc.inv_seq.min(d.recv_seq);
                    }
                }
            }
        }
        for d in m.deliveries.iter() {
            m.deliveries_by_key.entry((d.sub.clone(), d.recv.msg_id.clone())).or_default().push(d.idx);
            if !d.recv.ack_id.is_empty() {
                m.delivery_by_ack.entry((d.sub.clone(), d.recv.ack_id.clone())).or_default().push(d.idx);
            }
        }
        m
    }

    /// The single instance of a subscription name, if the name was created at most once
    /// (counting every create that may have taken effect) and that create returned OK.
    pub fn unique_sub(&self, name: &str) -> Option<SubInst> {
        let creates = self.sub_creates.get(name)?;
        let effective: Vec<&Call> = creates.iter().filter_map(|c| self.calls.get(c)).filter(|c| c.maybe_effective()).collect();
        if effective.len() != 1 {
            return None;
        }
        let c = effective[0];
        let established_seq = if c.returned_ok() {
            c.ret_seq.unwrap()
        } else if matches!(c.out, Some(Outcome::Abandoned(_))) {
            // the caller went away; somebody must have seen the subscription exist
            let mut seen: Option<u64> = None;
            for o in self.calls.values() {
                let shows = match (&o.req, &o.out) {
                    (Req::GetSub { sub }, Some(Outcome::Ok(_))) => sub == name,
                    (Req::CreateSub { sub, .. }, Some(Outcome::Err(ALREADY_EXISTS, _))) => sub == name,
                    _ => false,
                };
                if shows && o.inv_seq > c.inv_seq {
                    let r = o.ret_seq.unwrap();
                    seen = Some(seen.map(|s| s.min(r)).unwrap_or(r));
                }
            }
            // Seeing it exist is not enough: the create may still be in the middle of attaching it.
            // Once the system has been quiescent after that, creation is over, and a subscription
            // that exists counts as created from that barrier on.
            let seen = seen?;
            self.barrier_after(seen.max(c.ret_seq.unwrap_or(seen)))?.seq
        } else {
            return None;
        };
        if let Req::CreateSub { sub, topic, ack_deadline, push } = &c.req {
            Some(SubInst { name: sub.clone(), topic: topic.clone(), ack_deadline_req: *ack_deadline, push: push.clone(), create_call: c.id, established_seq })
        } else {
            None
        }
    }

    /// The current instance of a subscription name that was created more than once, when its
    /// creates and deletes were strictly sequential, all definite, and the last of them is a
    /// create that returned OK. (Falls back to `unique_sub` for names created once.)
    pub fn last_sub(&self, name: &str) -> Option<SubInst> {
        if let Some(u) = self.unique_sub(name) {
            return Some(u);
        }
        let mut ops: Vec<&Call> = Vec::new();
        for c in self.sub_creates.get(name)?.iter().chain(self.sub_deletes.get(name).map(|v| v.iter()).unwrap_or([].iter())) {
            ops.push(&self.calls[c]);
        }
        ops.sort_by_key(|c| c.inv_seq);
        for w in ops.windows(2) {
            if w[0].ret_seq_or_max() > w[1].inv_seq {
                return None;
            }
        }
        if ops.iter().any(|c| c.code().is_none() || (c.code() != Some(OK) && c.maybe_effective())) {
            return None;
        }
        let last = ops.iter().rev().find(|c| c.code() == Some(OK))?;
        if ops.last().map(|c| c.id) != Some(last.id) {
            // the last OK operation must be the last operation at all, unless what follows failed definitely
            if ops.iter().skip_while(|c| c.id != last.id).skip(1).any(|c| c.code() == Some(OK)) {
                return None;
            }
        }
        if let Req::CreateSub { sub, topic, ack_deadline, push } = &last.req {
            Some(SubInst { name: sub.clone(), topic: topic.clone(), ack_deadline_req: *ack_deadline, push: push.clone(), create_call: last.id, established_seq: last.ret_seq.unwrap() })
        } else {
            None
        }
    }

    /// The single creation of a topic name (same rule as `unique_sub`).
    pub fn unique_topic(&self, name: &str) -> Option<&Call> {
        let creates = self.topic_creates.get(name)?;
        let effective: Vec<&Call> = creates.iter().filter_map(|c| self.calls.get(c)).filter(|c| c.maybe_effective()).collect();
        if effective.len() != 1 || !effective[0].returned_ok() {
            return None;
        }
        Some(effective[0])
    }

    pub fn sub_delete_invoked_before(&self, name: &str, seq: u64) -> bool {
        self.sub_deletes.get(name).map(|v| v.iter().any(|c| self.calls[c].inv_seq < seq)).unwrap_or(false)
    }

    pub fn sub_delete_ever(&self, name: &str) -> bool {
        self.sub_deletes.get(name).map(|v| !v.is_empty()).unwrap_or(false)
    }

    pub fn topic_delete_invoked_before(&self, name: &str, seq: u64) -> bool {
        self.topic_deletes.get(name).map(|v| v.iter().any(|c| self.calls[c].inv_seq < seq)).unwrap_or(false)
    }

    pub fn published_of(&self, d: &Delivery) -> Option<&Published> {
        if let Some(v) = self.by_msg_id.get(&d.recv.msg_id) {
            if v.len() == 1 {
                return Some(&self.published[v[0]]);
            }
        }
        if !d.recv.token.is_empty() {
            if let Some(i) = self.by_token.get(&d.recv.token) {
                return Some(&self.published[*i]);
            }
        }
        None
    }

    /// `a` was certainly received before `b` could have been handed out.
    pub fn definitely_before(&self, a: &Delivery, b: &Delivery) -> bool {
        if b.lo_seq > 0 {
            a.recv_seq < b.lo_seq
        } else {
            a.recv_t < b.lo_t
        }
    }

    /// First quiescent barrier after `seq`.
    pub fn barrier_after(&self, seq: u64) -> Option<&BarrierInfo> {
        let i = self.barriers.partition_point(|b| b.seq <= seq);
        self.barriers[i..].iter().find(|b| b.quiescent)
    }

    pub fn call_of_pull(&self, d: &Delivery) -> Option<&Call> {
        match d.via {
            Via::Pull { call } => self.calls.get(&call),
            _ => None,
        }
    }
}
