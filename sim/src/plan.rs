//! The Plan: everything that defines one simulated run. A seed generates a Plan; a replay file
//! stores a Plan. The run is a pure function of (Plan, code under test).
use serde::{Deserialize, Serialize};
use std::collections::BTreeMap;

#[derive(Serialize, Deserialize, Clone, Debug, Default, PartialEq)]
pub struct Knobs {
    /// Probability (per mille) that an enabled schedule point yields.
    pub yield_permille: u32,
    /// Upper bound of yields per point (>= 1 when yield_permille > 0).
    pub max_yields: u32,
    /// Probability (per mille) that an enabled schedule point stalls in virtual time.
    pub stall_permille: u32,
    /// Max stall in microseconds.
    pub stall_max_us: u64,
    /// Enabled schedule-point sites: bit `fnv(site) % 64`.
    pub site_mask: u64,
    /// Push-loop interval in ms; 0 = the push loop is not started.
    pub push_interval_ms: u32,
    /// Virtual time to let pass before the first operation (phase on the 100 ms grid).
    pub pre_advance_us: u64,
    /// A slow handler: probability (per mille) that a schedule point on the request path of a
    /// handler (not inside an actor or the push loop) stalls for up to `long_stall_max_us`
    /// (seconds: a starved or paused request task).
    #[serde(default)]
    pub long_stall_permille: u32,
    #[serde(default)]
    pub long_stall_max_us: u64,
    /// The client's call deadline in seconds, sent as the standard `grpc-timeout` request header
    /// with every Pull (0 = no header). Values above the server-side wait limit only.
    #[serde(default)]
    pub call_deadline_s: u64,
}

#[derive(Serialize, Deserialize, Clone, Debug, PartialEq)]
pub enum Pick {
    None,
    /// The last n deliveries received on the subscription.
    LastN(u32),
    /// All deliveries ever received on the subscription (incl. stale ones).
    All,
    /// The i-th delivery received (mod count).
    Nth(u32),
    /// The first n deliveries received.
    OldestN(u32),
    /// Deliveries of the most recent response.
    LastResponse,
}

#[derive(Serialize, Deserialize, Clone, Debug, PartialEq)]
pub struct Sel {
    /// Only deliveries received by this client (else by anyone).
    pub mine: bool,
    pub pick: Pick,
    /// Literal ack IDs appended (unknown / malformed ones).
    #[serde(default, skip_serializing_if = "Vec::is_empty")]
    pub extra: Vec<String>,
    /// Number of well-formed but unknown filler IDs appended after everything else (large batches).
    #[serde(default, skip_serializing_if = "is_zero")]
    pub filler: u32,
    /// Insert one malformed ID at this position of the final list (clamped to its length).
    #[serde(default, skip_serializing_if = "Option::is_none")]
    pub bad_at: Option<u32>,
    /// The picked IDs are listed this many extra times (a request that names an ack ID twice).
    #[serde(default, skip_serializing_if = "is_zero")]
    pub repeat: u32,
}

fn is_zero(v: &u32) -> bool {
    *v == 0
}

impl Sel {
    pub fn none() -> Self {
        Sel { mine: false, pick: Pick::None, extra: vec![], filler: 0, bad_at: None, repeat: 0 }
    }
    pub fn is_none(&self) -> bool {
        self.pick == Pick::None && self.extra.is_empty()
    }
}

#[derive(Serialize, Deserialize, Clone, Debug, PartialEq)]
pub struct MsgSpec {
    /// 0 empty, 1 short ascii, 2 all 256 byte values, 3 invalid utf-8, 4 64 KiB, 5 1 MiB, 6 one byte
    pub data: u8,
    /// 0 none, 1 one, 2 fifty keys, 3 empty key+value, 4 non-ascii, 5 long
    pub attrs: u8,
}

#[derive(Serialize, Deserialize, Clone, Debug, PartialEq)]
pub struct PushSpec {
    pub endpoint: String,
    #[serde(default)]
    pub attrs: BTreeMap<String, String>,
    #[serde(default)]
    pub oidc: Option<(String, String)>,
}

/// What a stream's reader does with the deliveries it receives.
#[derive(Serialize, Deserialize, Clone, Debug, PartialEq)]
pub enum StreamPolicy {
    /// Just record them.
    Hold,
    /// Ack everything on the stream.
    AckAll,
    /// Nack everything (modify to 0) once, then hold redeliveries.
    NackFirst,
    /// Modify deadline of everything to n seconds.
    ModAck(i32),
}

#[derive(Serialize, Deserialize, Clone, Debug, PartialEq)]
pub enum ListKind {
    Topics,
    Subs,
    TopicSubs,
}

#[derive(Serialize, Deserialize, Clone, Debug, PartialEq)]
pub enum Op {
    Nop,
    CreateTopic { topic: String },
    DeleteTopic { topic: String },
    GetTopic { topic: String },
    CreateSub { sub: String, topic: String, ack_deadline: i32, push: Option<PushSpec> },
    DeleteSub { sub: String },
    GetSub { sub: String },
    /// One list page with literal size and token.
    ListPage { kind: ListKind, parent: String, page_size: i32, token: String },
    /// A full walk following next_page_token (bounded number of pages).
    Walk { kind: ListKind, parent: String, page_size: i32 },
    Publish { topic: String, msgs: Vec<MsgSpec> },
    /// One Publish request with `count` small messages (large backlogs without a large Plan).
    PublishMany { topic: String, count: u32 },
    Pull { sub: String, max: i32, immediate: bool },
    /// Immediate pulls (max 1000) until an empty response; nothing is acked.
    DrainPull { sub: String },
    /// A blocking pull run in the background (survives phase boundaries).
    PullBg { slot: u32, sub: String, max: i32 },
    /// Abandon a background pull at its next real suspension.
    CancelBg { slot: u32 },
    Ack { sub: String, sel: Sel },
    ModAck { sub: String, sel: Sel, secs: i32 },
    StreamOpen {
        slot: u32,
        sub: String,
        max_msgs: i64,
        max_bytes: i64,
        policy: StreamPolicy,
        /// Slow-consumer model (0 = responses are read as fast as they are produced): the response
        /// direction is a flow-controlled pipe of `window` responses; the server's response stream
        /// is only polled while the pipe has room (HTTP/2 send window).
        #[serde(default, skip_serializing_if = "is_zero32")]
        window: u32,
        /// The client stops reading after this many responses ...
        #[serde(default, skip_serializing_if = "is_zero32")]
        stall_after: u32,
        /// ... for this long (virtual).
        #[serde(default, skip_serializing_if = "is_zero64")]
        stall_us: u64,
    },
    /// A control message on an open stream. `raw_*` fields allow inconsistent messages.
    StreamSend {
        slot: u32,
        ack: Sel,
        modack: Sel,
        modack_secs: i32,
        #[serde(default)]
        raw_sub: String,
        #[serde(default)]
        raw_max_msgs: i64,
        #[serde(default)]
        raw_max_bytes: i64,
        /// Extra deadline entries without ack id (unequal lists).
        #[serde(default)]
        extra_secs: Vec<i32>,
        /// Per-ID seconds, cycled (mixes nacks and extensions in one frame); empty = modack_secs for all.
        #[serde(default)]
        secs_pattern: Vec<i32>,
        /// stream_ack_deadline_seconds of the control message (legal on follow-ups; 0 = unset).
        #[serde(default, skip_serializing_if = "is_zero_i32")]
        stream_secs: i32,
    },
    /// Wait until `secs` seconds (+ offset) after the n-th delivery received on `sub` (client-side
    /// receive time): operations issued exactly when a lease runs out.
    SleepUntilLeaseEnd {
        sub: String,
        nth: u32,
        secs: i32,
        offset_us: i64,
        /// Count from the invocation of the Pull that received the delivery (the earliest possible
        /// hand-out) instead of from its receipt: with a negative offset the step is then certainly
        /// issued before the lease can end.
        #[serde(default)]
        from_invoke: bool,
    },
    /// Wait until the virtual clock (since the start of the run) is at `offset_us` past a multiple
    /// of `period_us`: steps aligned to a periodic activity of the server (push rounds).
    SleepUntilMultiple { period_us: u64, offset_us: u64 },
    /// Half-close: end the request stream, keep reading responses.
    StreamCloseReq { slot: u32 },
    /// Drop both directions (client went away).
    StreamDrop { slot: u32 },
    /// Switch every simulated endpoint to "accept" from now on.
    EndpointFaultsOff,
}

#[derive(Serialize, Deserialize, Clone, Debug, PartialEq)]
pub struct Step {
    /// Virtual delay before the operation.
    #[serde(default)]
    pub delay_us: u64,
    pub op: Op,
    /// Drop the call at its k-th real suspension (0 = never).
    #[serde(default)]
    pub abandon_at: u32,
    /// Drop the call this long (virtual) after it was issued, if it is still waiting at a real
    /// suspension then (a client that disconnects while the server is working on its request).
    #[serde(default, skip_serializing_if = "is_zero64")]
    pub abandon_after_us: u64,
}

fn is_zero64(v: &u64) -> bool {
    *v == 0
}
fn is_zero32(v: &u32) -> bool {
    *v == 0
}
fn is_zero_i32(v: &i32) -> bool {
    *v == 0
}

impl Step {
    pub fn new(op: Op) -> Self {
        Step { delay_us: 0, op, abandon_at: 0, abandon_after_us: 0 }
    }
    pub fn after(delay_us: u64, op: Op) -> Self {
        Step { delay_us, op, abandon_at: 0, abandon_after_us: 0 }
    }
}

#[derive(Serialize, Deserialize, Clone, Debug, Default, PartialEq)]
pub struct Phase {
    /// Concurrent client scripts; the phase ends when all are done, then a barrier.
    pub scripts: Vec<Vec<Step>>,
    /// Clock jump after the barrier.
    #[serde(default)]
    pub advance_us: u64,
    /// Take stats snapshots / listing audits at the barrier.
    #[serde(default)]
    pub audit: bool,
}

/// Behaviour of the simulated push endpoint for one attempt.
#[derive(Serialize, Deserialize, Clone, Debug, PartialEq)]
pub enum Behaviour {
    Status(u16),
    ConnErr,
    /// Answer with the status after a virtual delay (ms).
    Delay(u64, u16),
    Never,
}

#[derive(Serialize, Deserialize, Clone, Debug, Default, PartialEq)]
pub struct EndpointPlan {
    /// Attempts `0..fault_attempts` of each message draw from the palette (by hash of
    /// seed, message and attempt); later attempts get `after`.
    pub palette: Vec<Behaviour>,
    pub fault_attempts: u32,
    /// Explicit per-attempt script (takes precedence over the palette when non-empty).
    #[serde(default)]
    pub script: Vec<Behaviour>,
    /// Behaviour once faults are exhausted (default accept 200).
    #[serde(default)]
    pub after: Option<Behaviour>,
}

#[derive(Serialize, Deserialize, Clone, Debug, Default, PartialEq)]
pub struct Plan {
    pub seed: u64,
    pub family: String,
    pub knobs: Knobs,
    pub phases: Vec<Phase>,
    /// After the phases: stop consumers, advance 601 s, drain every subscription.
    #[serde(default)]
    pub final_drain: bool,
    /// After everything: health probe (fresh topic/sub round trip + publish/pull on live resources).
    #[serde(default)]
    pub health_probe: bool,
    #[serde(default)]
    pub endpoint: EndpointPlan,
    /// Free-form tags used by oracles (e.g. "sequential", "no_consumer_faults").
    #[serde(default)]
    pub tags: Vec<String>,
}

impl Plan {
    pub fn with_tag(mut self, t: &str) -> Plan {
        self.tags.push(t.to_string());
        self
    }
    pub fn has_tag(&self, t: &str) -> bool {
        self.tags.iter().any(|x| x == t)
    }
    pub fn op_count(&self) -> usize {
        self.phases.iter().map(|p| p.scripts.iter().map(|s| s.len()).sum::<usize>()).sum()
    }
}
