//! The simulator side of `deltio::verif`: seeded schedule decisions, probe counters and the
//! transport of the simulated push endpoint. Also the seeded `getrandom` that makes every
//! `RandomState` in the process (HashMap iteration order) a function of the run seed.
use crate::plan::Knobs;
use crate::rng::{fnv_str, mix3};
use deltio::verif::{PointDecision, PushFuture, PushRequest, SimHooks};
use std::collections::BTreeMap;
use std::sync::atomic::{AtomicU64, Ordering};
use std::sync::Mutex;
use std::time::Duration;
use tokio::sync::{mpsc, oneshot};

pub struct PushArrival {
    pub request: PushRequest,
    pub responder: oneshot::Sender<Result<u16, String>>,
}

pub struct HookState {
    pub seed: u64,
    pub knobs: Knobs,
    pub enabled: bool,
    pub visits: BTreeMap<&'static str, u64>,
    pub probes: BTreeMap<&'static str, u64>,
    pub points: u64,
    pub yields: u64,
    pub stalls: u64,
    pub sched_fp: u64,
    pub push_tx: Option<mpsc::UnboundedSender<PushArrival>>,
    /// Locks held right now (address, class, exclusive). The run is single-threaded and no lock is
    /// held across an await, so one stack is enough.
    pub held: Vec<(usize, &'static str, bool)>,
    /// Observed nesting: (held class, held exclusively, acquired class, acquired exclusively).
    pub lock_edges: std::collections::BTreeSet<(&'static str, bool, &'static str, bool)>,
    pub lock_acquisitions: u64,
    /// Start of the run (tokio's paused clock) and the latest end of a long stall handed out: the
    /// barrier must not call the system quiescent while a request task is sitting in one.
    pub t0: Option<tokio::time::Instant>,
    pub long_stall_until: Option<tokio::time::Instant>,
    pub long_stalls: u64,
}

pub struct Hooks {
    pub st: Mutex<HookState>,
}

pub static HOOKS: Hooks = Hooks { st: Mutex::new(HookState::new_const()) };

impl HookState {
    const fn new_const() -> Self {
        HookState {
            seed: 0,
            knobs: Knobs {
                yield_permille: 0,
                max_yields: 0,
                stall_permille: 0,
                stall_max_us: 0,
                site_mask: 0,
                push_interval_ms: 0,
                pre_advance_us: 0,
                long_stall_permille: 0,
                long_stall_max_us: 0,
                call_deadline_s: 0,
            },
            enabled: false,
            visits: BTreeMap::new(),
            probes: BTreeMap::new(),
            points: 0,
            yields: 0,
            stalls: 0,
            sched_fp: 0,
            push_tx: None,
            held: Vec::new(),
            lock_edges: std::collections::BTreeSet::new(),
            lock_acquisitions: 0,
            t0: None,
            long_stall_until: None,
            long_stalls: 0,
        }
    }
}

struct HooksRef;

impl SimHooks for HooksRef {
    fn point(&self, site: &'static str) -> PointDecision {
        let mut st = HOOKS.st.lock().unwrap();
        st.points += 1;
        let visit = {
            let v = st.visits.entry(site).or_insert(0);
            *v += 1;
            *v
        };
        if !st.enabled {
            return PointDecision::default();
        }
        let site_hash = fnv_str(site);
        if st.knobs.site_mask & (1u64 << (site_hash % 64)) == 0 {
            return PointDecision::default();
        }
        let h = mix3(st.seed, site_hash, visit);
        let mut d = PointDecision::default();
        if st.knobs.yield_permille > 0 && (h % 1000) < st.knobs.yield_permille as u64 {
            d.yields = 1 + ((h >> 12) % st.knobs.max_yields.max(1) as u64) as u32;
            st.yields += d.yields as u64;
        }
        if st.knobs.stall_permille > 0 && ((h >> 24) % 1000) < st.knobs.stall_permille as u64 {
            let us = 1 + (h >> 36) % st.knobs.stall_max_us.max(1);
            d.stall = Some(Duration::from_micros(us));
            st.stalls += 1;
        }
        // a slow handler: seconds, only on the request path of handlers
        let handler_site = site.starts_with("api.") || site.starts_with("subscription.") || site.starts_with("topic.") || site.starts_with("submgr.");
        if handler_site && st.knobs.long_stall_permille > 0 && ((h >> 44) % 1000) < st.knobs.long_stall_permille as u64 {
            let us = 200_000 + (h >> 8) % st.knobs.long_stall_max_us.max(1);
            let dur = Duration::from_micros(us);
            d.stall = Some(dur);
            st.long_stalls += 1;
            let until = tokio::time::Instant::now() + dur;
            if st.long_stall_until.map(|u| until > u).unwrap_or(true) {
                st.long_stall_until = Some(until);
            }
        }
        if d.yields > 0 || d.stall.is_some() {
            st.sched_fp = mix3(st.sched_fp, site_hash ^ visit, d.yields as u64 + 1000 * d.stall.map(|s| s.as_micros() as u64).unwrap_or(0));
        }
        d
    }

    fn sync_point(&self, _site: &'static str) {}

    fn probe(&self, name: &'static str) {
        let mut st = HOOKS.st.lock().unwrap();
        *st.probes.entry(name).or_insert(0) += 1;
    }

    fn lock_acquired(&self, class: &'static str, addr: usize, exclusive: bool) {
        let mut st = HOOKS.st.lock().unwrap();
        st.lock_acquisitions += 1;
        let held = st.held.clone();
        for (_, hc, hx) in held {
            st.lock_edges.insert((hc, hx, class, exclusive));
        }
        st.held.push((addr, class, exclusive));
    }

    fn lock_released(&self, addr: usize) {
        let mut st = HOOKS.st.lock().unwrap();
        if let Some(pos) = st.held.iter().rposition(|h| h.0 == addr) {
            st.held.remove(pos);
        }
    }

    fn push_send(&self, request: PushRequest) -> PushFuture {
        let tx = HOOKS.st.lock().unwrap().push_tx.clone();
        Box::pin(async move {
            let tx = match tx {
                Some(tx) => tx,
                None => return Err("no endpoint".to_string()),
            };
            let (responder, rx) = oneshot::channel();
            if tx.send(PushArrival { request, responder }).is_err() {
                return Err("connection refused".to_string());
            }
            match rx.await {
                Ok(r) => r,
                Err(_) => Err("connection reset".to_string()),
            }
        })
    }
}

pub fn install(seed: u64, knobs: Knobs, push_tx: mpsc::UnboundedSender<PushArrival>) {
    {
        let mut st = HOOKS.st.lock().unwrap();
        st.seed = seed;
        st.knobs = knobs;
        st.enabled = true;
        st.push_tx = Some(push_tx);
    }
    deltio::verif::install(Box::new(HooksRef));
}

pub fn set_enabled(on: bool) {
    HOOKS.st.lock().unwrap().enabled = on;
}

pub fn activity() -> u64 {
    HOOKS.st.lock().unwrap().points
}

/// True while some request task is sitting in a long stall.
pub fn long_stall_pending() -> bool {
    HOOKS.st.lock().unwrap().long_stall_until.map(|u| tokio::time::Instant::now() < u).unwrap_or(false)
}

pub fn long_stalls() -> u64 {
    HOOKS.st.lock().unwrap().long_stalls
}

// ---------------------------------------------------------------------------------------------
// Seeded getrandom: std's `hashmap_random_keys` calls the weak symbol `getrandom` on Linux, so a
// strong definition in the binary wins. Every RandomState becomes a function of GETRANDOM_STATE.

static GETRANDOM_STATE: AtomicU64 = AtomicU64::new(0x5EED_0000_DEAD_BEEF);
pub static GETRANDOM_CALLS: AtomicU64 = AtomicU64::new(0);

pub fn seed_getrandom(seed: u64) {
    GETRANDOM_STATE.store(crate::rng::mix(seed ^ 0xA5A5_5A5A_1234_5678), Ordering::SeqCst);
}

#[no_mangle]
pub unsafe extern "C" fn getrandom(buf: *mut u8, len: usize, _flags: u32) -> isize {
    GETRANDOM_CALLS.fetch_add(1, Ordering::Relaxed);
    let mut i = 0usize;
    while i < len {
        let s = GETRANDOM_STATE.fetch_add(0x9E37_79B9_7F4A_7C15, Ordering::Relaxed);
        let v = crate::rng::mix(s);
        let bytes = v.to_le_bytes();
        let mut j = 0;
        while j < 8 && i < len {
            *buf.add(i) = bytes[j];
            i += 1;
            j += 1;
        }
    }
    len as isize
}
