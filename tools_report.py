#!/usr/bin/env python3
"""Writes /verif/SENSITIVITY.md from SENSITIVITY_RAW.json (own mutants) and seeded/*/meta.json."""
import json, glob, os
out=[]
out.append("# Sensitivity: which checks catch which changes\n")
out.append("Two sources of property-breaking changes, all applied to /repo uncommitted, checked, reverted:\n")
out.append("* **seeded/**: written by independent sub-agents that saw only the text of one property and a scratch worktree (nothing from /verif). Each was confirmed in a scratch worktree first (demonstration passes without the patch; with it the 42 existing tests pass and the demonstration fails).")
out.append("* **mutants.json**: one-line mutations written while building the checks (tools_mutants.py), including negative controls that keep the property and must pass.\n")
out.append("## Independently seeded changes\n")
out.append("| id | property | what it needs to manifest | result with the property's quick check |")
out.append("|---|---|---|---|")
for f in sorted(glob.glob('/verif/seeded/*/meta.json')):
    m=json.load(open(f))
    out.append(f"| {m['id']} | {m['property']} | {m['needs_to_manifest']} | {m['result']} |")
metas=[json.load(open(f)) for f in sorted(glob.glob('/verif/seeded/*/meta.json'))]
missed=[m for m in metas if m['result'].startswith('MISSED')]
out.append(f"\n{len(metas)} changes; {len(metas)-len(missed)} detected by the checks as they stood when the change arrived; {len(missed)} were missed at first and led to a strengthening (described in the result column), after which all are detected. No check had to be loosened.\n")
out_of_reach=[m for m in metas if m['result'].startswith('NOT DETECTED (out of reach')]
if out_of_reach:
    out.append(f"\n{len(out_of_reach)} change(s) are **not detected** and stay so (outside the simulated boundary, DESIGN §10): "+", ".join(m['id'] for m in out_of_reach)+".\n")
raw='/verif/SENSITIVITY_RAW.json'
if os.path.exists(raw):
    rs=json.load(open(raw))
    out.append("## Own mutants\n")
    out.append("| id | check | mutation | 42 baseline tests | check exit | expected | first violation |")
    out.append("|---|---|---|---|---|---|---|")
    for r in sorted(rs,key=lambda r:r['id']):
        if 'error' in r:
            out.append(f"| {r['id']} | | {r['error']} | | | | |"); continue
        exp='violation' if r['expect']=='fail' else 'pass (negative control)'
        ok='yes' if r['as_expected'] else '**NO**'
        fv=r.get('first_violation','').replace('|','/')[:160]
        out.append(f"| {r['id']} | {r['check']} | {r['what']} | {r.get('baseline_tests','')} | {r['exit']} | {exp}: {ok} | {fv} |")
open('/verif/SENSITIVITY.md','w').write("\n".join(out)+"\n")
print("written", len(metas), "seeded")
