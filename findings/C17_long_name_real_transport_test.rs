//! C17 over the real HTTP/2 transport (unix socket, tonic client with default settings): a
//! malformed or unknown resource name of any length must be answered with its gRPC status
//! (INVALID_ARGUMENT / NOT_FOUND), not with a protocol error, and the connection keeps serving.
//! On efb0c8d..a0e5924 names whose echo makes the status trailers exceed the client's 16 KiB header
//! list limit are answered `Internal: h2 protocol error` (the status never reaches the client).
//! Copy to `tests/` of deltio and run `cargo test --offline --test long_name_probe_test`.
use deltio::pubsub_proto::{GetSubscriptionRequest, GetTopicRequest};
use test_helpers::*;
use tonic::Code;

pub mod test_helpers;

#[tokio::test]
async fn long_names_are_answered_with_their_status() {
    let mut server = TestHost::start().await.unwrap();
    for len in [100usize, 4_000, 16_000, 16_200, 20_000, 70_000] {
        let err = server
            .subscriber
            .get_subscription(GetSubscriptionRequest { subscription: "x".repeat(len) })
            .await
            .unwrap_err();
        assert_eq!(err.code(), Code::InvalidArgument, "malformed name of {len} bytes: {}", err.message().chars().take(80).collect::<String>());
        // a well-formed name of that length that names nothing
        let err = server
            .publisher
            .get_topic(GetTopicRequest { topic: format!("projects/p/topics/t{}", "y".repeat(len)) })
            .await
            .unwrap_err();
        assert_eq!(err.code(), Code::NotFound, "unknown topic name of {len} bytes: {}", err.message().chars().take(80).collect::<String>());
        // multi-byte characters (3 bytes each once percent-encoded)
        let err = server
            .subscriber
            .get_subscription(GetSubscriptionRequest { subscription: "ü".repeat(len / 3) })
            .await
            .unwrap_err();
        assert_eq!(err.code(), Code::InvalidArgument, "malformed non-ASCII name of {} bytes", 2 * (len / 3));
    }
    server.dispose().await;
}
