//! Demonstration for seeded change 1 (property C06).
//!
//! Scenario: a StreamingPull client that has stopped reading its response stream (its HTTP/2
//! receive window is exhausted, so the server-side response stream is suspended in the middle
//! of handing over a batch) and, on another connection, a blocked `Pull` on the same
//! subscription. A message published now must be handed to the blocked `Pull`.
//!
//! Copy to `tests/` and run with `cargo test --offline --test demo_c06_stalled_stream_test`.

use deltio::pubsub_proto::publisher_client::PublisherClient;
use deltio::pubsub_proto::subscriber_client::SubscriberClient;
use deltio::pubsub_proto::{
    PublishRequest, PubsubMessage, PullRequest, StreamingPullRequest, Subscription, Topic,
};
use deltio::subscriptions::SubscriptionName;
use deltio::topics::TopicName;
use deltio::Deltio;
use hyper_util::rt::TokioIo;
use std::sync::Arc;
use std::time::Duration;
use tokio::net::{UnixListener, UnixStream};
use tokio_stream::wrappers::UnixListenerStream;
use tonic::transport::{Channel, Endpoint};
use tower::service_fn;
use uuid::Uuid;

/// The (small) HTTP/2 flow-control window used by the stalled client.
const SMALL_WINDOW: u32 = 65_535;

/// Connects a new HTTP/2 connection to the server listening on the given socket.
async fn connect(sock_file: &str, window: Option<u32>) -> Channel {
    let sock_file = Arc::new(sock_file.to_string());
    let mut endpoint = Endpoint::try_from("http://doesnt.matter").unwrap();
    if let Some(window) = window {
        endpoint = endpoint
            .initial_stream_window_size(window)
            .initial_connection_window_size(window);
    }
    endpoint
        .connect_with_connector(service_fn(move |_| {
            let sock_file = Arc::clone(&sock_file);
            async move {
                Ok::<_, std::io::Error>(TokioIo::new(
                    UnixStream::connect(sock_file.as_ref()).await?,
                ))
            }
        }))
        .await
        .unwrap()
}

fn message(data: Vec<u8>) -> PubsubMessage {
    PubsubMessage {
        publish_time: None,
        attributes: Default::default(),
        message_id: Default::default(),
        ordering_key: Default::default(),
        data,
    }
}

#[allow(deprecated)]
#[tokio::test(flavor = "multi_thread", worker_threads = 2)]
async fn blocked_pull_gets_message_while_a_streaming_pull_client_is_stalled() {
    // Start the server on a unix socket.
    let sock_file = format!(
        "{}/{}.sock",
        std::env::temp_dir().to_str().unwrap(),
        Uuid::new_v4()
    );
    let listener = UnixListener::bind(&sock_file).unwrap();
    let app = Deltio::new();
    let server = tokio::spawn(
        app.server_builder()
            .serve_with_incoming(UnixListenerStream::new(listener)),
    );

    // One connection for "everyone else", one for the client that is going to stall.
    let main_channel = connect(&sock_file, None).await;
    let stalled_channel = connect(&sock_file, Some(SMALL_WINDOW)).await;
    let mut publisher = PublisherClient::new(main_channel.clone());
    let mut subscriber = SubscriberClient::new(main_channel.clone());

    let topic_name = TopicName::new("test", "topic");
    let subscription_name = SubscriptionName::new("test", "subscription");
    publisher
        .create_topic(Topic {
            name: topic_name.to_string(),
            ..Default::default()
        })
        .await
        .unwrap();
    subscriber
        .create_subscription(Subscription {
            name: subscription_name.to_string(),
            topic: topic_name.to_string(),
            // A long lease, so that no lease runs out (and produces another signal) during the test.
            ack_deadline_seconds: 600,
            ..Default::default()
        })
        .await
        .unwrap();

    // Consumer A: a StreamingPull whose client never reads the response stream.
    let (a_requests, mut a_outgoing) = tokio::sync::mpsc::channel::<StreamingPullRequest>(4);
    let initial = StreamingPullRequest {
        subscription: subscription_name.to_string(),
        client_id: "stalled".to_string(),
        max_outstanding_messages: 100,
        max_outstanding_bytes: 100_000_000,
        ..Default::default()
    };
    let a_response = SubscriberClient::new(stalled_channel)
        .streaming_pull(async_stream::stream! {
            yield initial;
            while let Some(request) = a_outgoing.recv().await {
                yield request;
            }
        })
        .await
        .unwrap();
    // Keep the stream open, but do not read from it.
    let a_inbound = a_response.into_inner();
    tokio::time::sleep(Duration::from_millis(300)).await;

    // Four 20,000 byte messages, one at a time: three fit into A's 65,535 byte window, the fourth
    // only partly. Each is handed to A's stream at once (A is waiting); after the fourth the
    // transport cannot send any more, and the handler is waiting for the next signal.
    for _ in 0..4 {
        publisher
            .publish(PublishRequest {
                topic: topic_name.to_string(),
                messages: vec![message(vec![b'x'; 20_000])],
            })
            .await
            .unwrap();
        tokio::time::sleep(Duration::from_millis(200)).await;
    }

    // Consumer B: a blocked Pull (other connection). It finds nothing and waits.
    let b_pull = tokio::spawn({
        let mut subscriber = SubscriberClient::new(main_channel.clone());
        let subscription = subscription_name.to_string();
        async move {
            subscriber
                .pull(PullRequest {
                    subscription,
                    max_messages: 10,
                    return_immediately: false,
                })
                .await
                .unwrap()
                .into_inner()
        }
    });
    tokio::time::sleep(Duration::from_millis(500)).await;
    assert!(!b_pull.is_finished(), "B should be waiting for a message");

    // A new message becomes available: B is waiting and can take it.
    publisher
        .publish(PublishRequest {
            topic: topic_name.to_string(),
            messages: vec![message(b"for the waiting pull".to_vec())],
        })
        .await
        .unwrap();

    let pulled = tokio::time::timeout(Duration::from_secs(4), b_pull)
        .await
        .expect("C06: the blocked Pull was not woken although a message is available")
        .unwrap();
    assert_eq!(pulled.received_messages.len(), 1);
    assert_eq!(
        pulled.received_messages[0].message.as_ref().unwrap().data,
        b"for the waiting pull".to_vec()
    );

    drop(a_requests);
    drop(a_inbound);
    server.abort();
    let _ = tokio::fs::remove_file(&sock_file).await;
}
