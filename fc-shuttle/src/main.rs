//! C19: FlowControl under a controlled thread scheduler (shuttle).
//!
//! Real code: deltio::subscriptions::flow_control (built with --cfg deltio_verif so that its
//! sync points call back into this harness), tokio::sync::Notify. The scheduler decides at every
//! sync point (between every pair of atomic / Notify operations) which thread runs next.
//!
//! Modes:
//!   fc-shuttle run --tier quick|thorough         parent: spawns workers, aggregates, writes evidence
//!   fc-shuttle worker --sched random|pct:<d> --seed <n> --iters <n> --out <file>
//!   fc-shuttle replay --file <schedule file>
use deltio::subscriptions::flow_control::{self, FlowControl};
use deltio::verif::{PointDecision, PushFuture, PushRequest, SimHooks};
use shuttle::rand::Rng;
use shuttle::scheduler::{PctScheduler, RandomScheduler};
use shuttle::{Config, FailurePersistence, Runner};
use std::collections::HashSet;
use std::future::Future;
use std::pin::Pin;
use std::sync::atomic::{AtomicU64, Ordering};
use std::sync::{Arc, Mutex};
use std::task::{Context, Poll};

fn verif_dir() -> String {
    std::env::var("VERIF_HOME").unwrap_or_else(|_| "/verif".to_string())
}

// Per-execution state. A worker process runs one shuttle Runner, whose executions all happen on
// one OS thread at a time, so plain process-wide statics are per-execution when reset at the start.
static TRACE_HASH: AtomicU64 = AtomicU64::new(0);
static SYNC_POINTS: AtomicU64 = AtomicU64::new(0);
static PARKED: AtomicU64 = AtomicU64::new(0);
static STATS: Mutex<Stats> = Mutex::new(Stats::new());

struct Stats {
    executions: u64,
    nontrivial: u64,
    parked_waiters: u64,
    sync_points: u64,
    hashes: Vec<u64>,
    nontrivial_hashes: Vec<u64>,
    sample: Vec<String>,
}

impl Stats {
    const fn new() -> Self {
        Stats { executions: 0, nontrivial: 0, parked_waiters: 0, sync_points: 0, hashes: Vec::new(), nontrivial_hashes: Vec::new(), sample: Vec::new() }
    }
}

fn mix(a: u64, b: u64) -> u64 {
    let mut z = a ^ b.wrapping_mul(0x9E37_79B9_7F4A_7C15).rotate_left(23);
    z = (z ^ (z >> 30)).wrapping_mul(0xBF58_476D_1CE4_E5B9);
    z = (z ^ (z >> 27)).wrapping_mul(0x94D0_49BB_1331_11EB);
    z ^ (z >> 31)
}

fn fnv(s: &str) -> u64 {
    let mut h: u64 = 0xcbf2_9ce4_8422_2325;
    for b in s.bytes() {
        h ^= b as u64;
        h = h.wrapping_mul(0x0000_0100_0000_01B3);
    }
    h
}

struct Hooks;

impl SimHooks for Hooks {
    fn point(&self, _site: &'static str) -> PointDecision {
        PointDecision::default()
    }
    fn sync_point(&self, site: &'static str) {
        // Record who reached which site (the interleaving fingerprint), then let the
        // scheduler pick the next thread. sleep(0) is a scheduling point that, unlike
        // yield_now, does not demote the caller under PCT.
        let me = format!("{:?}", shuttle::thread::current().id());
        TRACE_HASH.store(mix(TRACE_HASH.load(Ordering::Relaxed), fnv(&me) ^ fnv(site)), Ordering::Relaxed);
        SYNC_POINTS.fetch_add(1, Ordering::Relaxed);
        shuttle::thread::sleep(std::time::Duration::from_millis(0));
    }
    fn probe(&self, _name: &'static str) {}
    fn push_send(&self, _request: PushRequest) -> PushFuture {
        Box::pin(async { Err("unused".to_string()) })
    }
}

/// Counts polls: a waiter whose first poll was Pending really parked.
struct CountPolls<F> {
    inner: Pin<Box<F>>,
    polls: u32,
    /// Stamps every poll with the global sequence counter: the waiter's last look at the counts
    /// happens inside its last poll.
    seq: Arc<AtomicU64>,
    last_poll: u64,
}

impl<F: Future> Future for CountPolls<F> {
    type Output = (u32, u64);
    fn poll(mut self: Pin<&mut Self>, cx: &mut Context<'_>) -> Poll<(u32, u64)> {
        self.polls += 1;
        self.last_poll = self.seq.fetch_add(1, Ordering::SeqCst);
        match self.inner.as_mut().poll(cx) {
            Poll::Ready(_) => Poll::Ready((self.polls, self.last_poll)),
            Poll::Pending => Poll::Pending,
        }
    }
}

#[derive(Clone, Debug)]
struct OpRec {
    inc: bool,
    bytes: u64,
    msgs: u64,
    inv: u64,
    ret: u64,
}

#[derive(Clone, Debug)]
struct WaitRec {
    start: u64,
    end: u64,
    polls: u32,
    last_poll: u64,
}

/// One generated scenario, run under whatever schedule the scheduler picks.
fn scenario() {
    TRACE_HASH.store(0, Ordering::Relaxed);
    SYNC_POINTS.store(0, Ordering::Relaxed);
    PARKED.store(0, Ordering::Relaxed);
    let mut rng = shuttle::rand::thread_rng();
    let max_msgs: u64 = rng.gen_range(1..=3);
    let max_bytes: u64 = *[8u64, 16, 1 << 40].get(rng.gen_range(0..3)).unwrap();
    let fc: Arc<FlowControl> = Arc::new(flow_control::create(max_bytes, max_msgs));
    // Initial occupancy (owned by mutator 0, who will free it): often at or over a limit.
    let init_msgs: u64 = rng.gen_range(0..=max_msgs + 1);
    let init_bytes: u64 = match rng.gen_range(0..3) {
        0 => 0,
        1 => max_bytes.min(64),
        _ => (max_bytes / 2).min(64),
    };
    let n_waiters: usize = rng.gen_range(1..=3);
    let n_mutators: usize = rng.gen_range(1..=3);
    // Each mutator's program keeps its own net contribution >= 0 and ends at 0, so the final
    // state has free capacity and every waiter must eventually be released.
    let mut programs: Vec<Vec<(bool, u64, u64)>> = Vec::new();
    for mi in 0..n_mutators {
        let mut prog = Vec::new();
        let (mut held_b, mut held_m) = if mi == 0 { (init_bytes, init_msgs) } else { (0, 0) };
        let steps = rng.gen_range(0..=3);
        for _ in 0..steps {
            if rng.gen_bool(0.5) {
                let b = rng.gen_range(0..=max_bytes.min(16));
                let m = rng.gen_range(0..=2);
                prog.push((true, b, m));
                held_b += b;
                held_m += m;
            } else if held_b > 0 || held_m > 0 {
                let b = if held_b > 0 { rng.gen_range(0..=held_b) } else { 0 };
                let m = if held_m > 0 { rng.gen_range(0..=held_m) } else { 0 };
                prog.push((false, b, m));
                held_b -= b;
                held_m -= m;
            }
        }
        if held_b > 0 || held_m > 0 {
            // free the rest, in one or two decrements
            if rng.gen_bool(0.5) && held_m > 1 {
                prog.push((false, 0, 1));
                held_m -= 1;
            }
            prog.push((false, held_b, held_m));
        }
        // An acknowledgement accounted before its delivery is (the updates are meant to commute):
        // the decrement comes first, the counters wrap and look full, and it is the late
        // increment that brings them back below the limits.
        if rng.gen_bool(0.25) {
            let b = rng.gen_range(0..=max_bytes.min(16));
            let m = rng.gen_range(1..=2);
            let at = rng.gen_range(0..=prog.len());
            prog.insert(at, (false, b, m));
            let back = rng.gen_range(at + 1..=prog.len());
            prog.insert(back, (true, b, m));
        }
        programs.push(prog);
    }
    fc.inc(init_bytes, init_msgs);

    let seq = Arc::new(AtomicU64::new(1));
    let ops: Arc<Mutex<Vec<OpRec>>> = Arc::new(Mutex::new(Vec::new()));
    let waits: Arc<Mutex<Vec<WaitRec>>> = Arc::new(Mutex::new(Vec::new()));
    let mut handles = Vec::new();
    for _ in 0..n_waiters {
        let (fc, seq, waits) = (fc.clone(), seq.clone(), waits.clone());
        handles.push(shuttle::thread::spawn(move || {
            let start = seq.fetch_add(1, Ordering::SeqCst);
            let fut = CountPolls { inner: Box::pin(async move { fc.wait_for_available_space().await }), polls: 0, seq: seq.clone(), last_poll: 0 };
            let (polls, last_poll) = shuttle::future::block_on(fut);
            let end = seq.fetch_add(1, Ordering::SeqCst);
            if polls > 1 {
                PARKED.fetch_add(1, Ordering::Relaxed);
            }
            waits.lock().unwrap().push(WaitRec { start, end, polls, last_poll });
        }));
    }
    for prog in programs.iter().cloned() {
        let (fc, seq, ops) = (fc.clone(), seq.clone(), ops.clone());
        handles.push(shuttle::thread::spawn(move || {
            for (inc, b, m) in prog {
                let inv = seq.fetch_add(1, Ordering::SeqCst);
                if inc {
                    fc.inc(b, m);
                } else {
                    fc.dec(b, m);
                }
                let ret = seq.fetch_add(1, Ordering::SeqCst);
                ops.lock().unwrap().push(OpRec { inc, bytes: b, msgs: m, inv, ret });
            }
        }));
    }
    // C19.lost / C19.all: every waiter must return. If one stays parked after all mutators are
    // done, shuttle reports the deadlock (a panic) with the schedule.
    for h in handles {
        h.join().unwrap();
    }
    // C19.spurious: a waiter may only return after observing both counts below their limits.
    // With the operations that had returned before the wait began counted in, and every decrement
    // invoked before it ended counted out, the counts cannot have been lower than this:
    let ops = ops.lock().unwrap().clone();
    let waits = waits.lock().unwrap().clone();
    // ... and during its *last poll* (its last look at the counts; an observation made in an earlier
    // poll, before it went back to waiting, does not license the return): there must be an instant
    // of the last poll at which the message count can have been below its limit, and one at which
    // the byte count can (the two are separate atomics, read one after the other). At an instant t
    // a count is at least initial + increments that had returned by t - decrements invoked by t.
    for w in waits.iter() {
        let from = w.last_poll.max(w.start);
        let mut instants: Vec<u64> = vec![from, w.end];
        for o in ops.iter() {
            for t in [o.inv, o.ret] {
                if t > from && t < w.end {
                    instants.push(t);
                }
            }
        }
        let (mut ok_m, mut ok_b) = (false, false);
        let (mut min_m, mut min_b) = (i128::MAX, i128::MAX);
        for t in instants.iter() {
            let mut lo_m = init_msgs as i128;
            let mut lo_b = init_bytes as i128;
            for o in ops.iter() {
                if o.inc && o.ret <= *t {
                    lo_m += o.msgs as i128;
                    lo_b += o.bytes as i128;
                }
                if !o.inc && o.inv <= *t {
                    lo_m -= o.msgs as i128;
                    lo_b -= o.bytes as i128;
                }
            }
            ok_m |= lo_m < max_msgs as i128;
            ok_b |= lo_b < max_bytes as i128;
            min_m = min_m.min(lo_m);
            min_b = min_b.min(lo_b);
        }
        assert!(
            ok_m && ok_b,
            "C19.spurious: a waiter resumed although during its last poll the counts cannot both have been seen below their limits: msgs>={min_m} (max {max_msgs}) bytes>={min_b} (max {max_bytes}); wait={w:?} ops={ops:?}"
        );
    }
    assert!(fc.has_available_space(), "scenario must end with free capacity");
    // bookkeeping
    let parked = PARKED.load(Ordering::Relaxed);
    let h = mix(TRACE_HASH.load(Ordering::Relaxed), fnv(&format!("{max_msgs}/{max_bytes}/{init_msgs}/{init_bytes}/{programs:?}/{n_waiters}")));
    let mut st = STATS.lock().unwrap();
    st.executions += 1;
    st.sync_points += SYNC_POINTS.load(Ordering::Relaxed);
    st.hashes.push(h);
    if parked > 0 {
        st.nontrivial += 1;
        st.parked_waiters += parked;
        st.nontrivial_hashes.push(h);
        if st.sample.len() < 2 {
            st.sample.push(format!("limits msgs<{max_msgs} bytes<{max_bytes}; initial occupancy msgs={init_msgs} bytes={init_bytes}; {n_waiters} waiter(s) polls={:?}; mutator programs (inc?,bytes,msgs)={programs:?}; {} sync points", waits.iter().map(|w| w.polls).collect::<Vec<_>>(), SYNC_POINTS.load(Ordering::Relaxed)));
        }
    }
}

fn arg<'a>(args: &'a [String], name: &str) -> Option<&'a str> {
    args.iter().position(|a| a == name).and_then(|i| args.get(i + 1)).map(|s| s.as_str())
}

fn config(replay_dir: &str) -> Config {
    let mut cfg = Config::new();
    cfg.failure_persistence = FailurePersistence::File(Some(replay_dir.into()));
    cfg
}

fn worker(args: &[String]) -> i32 {
    let sched = arg(args, "--sched").unwrap_or("random").to_string();
    let seed: u64 = arg(args, "--seed").and_then(|s| s.parse().ok()).unwrap_or(1);
    let iters: usize = arg(args, "--iters").and_then(|s| s.parse().ok()).unwrap_or(1000);
    let out = arg(args, "--out").unwrap_or("/dev/null").to_string();
    let replay_dir = arg(args, "--replay-dir").unwrap_or("/verif/replays").to_string();
    let _ = std::fs::create_dir_all(&replay_dir);
    deltio::verif::install(Box::new(Hooks));
    std::panic::set_hook(Box::new(|info| {
        eprintln!("{info}");
    }));
    let result = std::panic::catch_unwind(|| {
        if let Some(depth) = sched.strip_prefix("pct:") {
            let d: usize = depth.parse().unwrap_or(2);
            Runner::new(PctScheduler::new_from_seed(seed, d, iters), config(&replay_dir)).run(scenario)
        } else {
            Runner::new(RandomScheduler::new_from_seed(seed, iters), config(&replay_dir)).run(scenario)
        }
    });
    let st = STATS.lock().unwrap_or_else(|e| e.into_inner());
    let mut bytes: Vec<u8> = Vec::new();
    for h in st.nontrivial_hashes.iter() {
        bytes.extend_from_slice(&h.to_le_bytes());
    }
    let _ = std::fs::write(format!("{out}.nt"), &bytes);
    let mut bytes: Vec<u8> = Vec::new();
    for h in st.hashes.iter() {
        bytes.extend_from_slice(&h.to_le_bytes());
    }
    let _ = std::fs::write(format!("{out}.all"), &bytes);
    let summary = serde_json::json!({
        "sched": sched, "seed": seed, "executions": st.executions, "nontrivial": st.nontrivial, "parked_waiters": st.parked_waiters,
        "sync_points": st.sync_points, "sample": st.sample, "failed": result.is_err(),
    });
    println!("{summary}");
    if result.is_err() {
        1
    } else {
        0
    }
}

fn newest_schedule(dir: &str, since: std::time::SystemTime) -> Option<String> {
    let mut best: Option<(std::time::SystemTime, String)> = None;
    for e in std::fs::read_dir(dir).ok()? {
        let e = e.ok()?;
        let name = e.file_name().to_string_lossy().to_string();
        if !name.starts_with("schedule") {
            continue;
        }
        let t = e.metadata().ok()?.modified().ok()?;
        if t >= since && best.as_ref().map(|b| t > b.0).unwrap_or(true) {
            best = Some((t, e.path().to_string_lossy().to_string()));
        }
    }
    best.map(|b| b.1)
}

fn parent(args: &[String]) -> i32 {
    let tier = arg(args, "--tier").unwrap_or("quick").to_string();
    let thorough = tier == "thorough";
    let verif_seed: u64 = std::env::var("VERIF_SEED").ok().and_then(|s| s.parse().ok()).unwrap_or(1);
    let start = std::time::Instant::now();
    let started_at = std::time::SystemTime::now();
    let exe = std::env::current_exe().unwrap();
    let tmp = format!("{}/fc-shuttle/target/tmp-{}", verif_dir(), std::process::id());
    let _ = std::fs::create_dir_all(&tmp);
    let replay_dir = format!("{}/replays", verif_dir());
    let _ = std::fs::create_dir_all(&replay_dir);
    // worker list: (scheduler, iterations)
    let per = if thorough { 4_000_000 } else { 100_000 };
    let mut jobs: Vec<(String, usize)> = Vec::new();
    for _ in 0..8 {
        jobs.push(("random".into(), per));
    }
    for d in [1usize, 2, 2, 3, 3, 4, 4, 5] {
        jobs.push((format!("pct:{d}"), per));
    }
    let children: Vec<_> = jobs
        .iter()
        .enumerate()
        .map(|(i, (sched, iters))| {
            let out = format!("{tmp}/w{i}");
            let seed = mix(verif_seed, i as u64 + 1) >> 12;
            let child = std::process::Command::new(&exe)
                .args(["worker", "--sched", sched, "--seed", &seed.to_string(), "--iters", &iters.to_string(), "--out", &out, "--replay-dir", &replay_dir])
                .stdout(std::process::Stdio::piped())
                .stderr(std::process::Stdio::piped())
                .spawn()
                .expect("spawn worker");
            (i, sched.clone(), seed, out, child)
        })
        .collect();
    let mut executions = 0u64;
    let mut nontrivial = 0u64;
    let mut parked = 0u64;
    let mut sync_points = 0u64;
    let mut samples: Vec<serde_json::Value> = Vec::new();
    let mut all: HashSet<u64> = HashSet::new();
    let mut nt: HashSet<u64> = HashSet::new();
    let mut failures: Vec<String> = Vec::new();
    let mut by_sched: std::collections::BTreeMap<String, u64> = Default::default();
    for (_i, sched, seed, out, child) in children {
        let output = child.wait_with_output().expect("worker output");
        let stdout = String::from_utf8_lossy(&output.stdout).to_string();
        let stderr = String::from_utf8_lossy(&output.stderr).to_string();
        if let Some(Ok(v)) = stdout.lines().last().map(serde_json::from_str::<serde_json::Value>) {
            executions += v["executions"].as_u64().unwrap_or(0);
            nontrivial += v["nontrivial"].as_u64().unwrap_or(0);
            parked += v["parked_waiters"].as_u64().unwrap_or(0);
            sync_points += v["sync_points"].as_u64().unwrap_or(0);
            *by_sched.entry(sched.clone()).or_insert(0) += v["executions"].as_u64().unwrap_or(0);
            if samples.len() < 3 {
                if let Some(arr) = v["sample"].as_array() {
                    for s in arr.iter().take(1) {
                        samples.push(serde_json::json!({"scheduler": sched, "worker_seed": seed, "scenario": s}));
                    }
                }
            }
        } else {
            failures.push(format!("worker {sched} seed {seed}: no summary; stderr: {}", stderr.lines().last().unwrap_or("")));
        }
        if !output.status.success() {
            let msg = stderr.lines().find(|l| l.contains("C19.") || l.contains("deadlock") || l.contains("panicked")).unwrap_or("worker failed").to_string();
            let msg = if msg.contains("deadlock") { format!("C19.lost: a waiter stayed parked although capacity was freed (shuttle: {})", msg.chars().take(60).collect::<String>()) } else { msg };
            failures.push(format!("{sched} seed {seed}: {}", msg.chars().take(400).collect::<String>()));
        }
        for (ext, set) in [("all", &mut all), ("nt", &mut nt)] {
            if let Ok(bytes) = std::fs::read(format!("{out}.{ext}")) {
                for c in bytes.chunks_exact(8) {
                    set.insert(u64::from_le_bytes(c.try_into().unwrap()));
                }
            }
        }
    }
    let _ = std::fs::remove_dir_all(&tmp);
    let mut violations = 0;
    if !failures.is_empty() {
        violations = 1;
        let file = newest_schedule(&replay_dir, started_at).unwrap_or_else(|| "(schedule file not found)".into());
        println!("VIOLATION property=C19 replay={file}");
        for f in failures.iter().take(4) {
            println!("  {f}");
        }
    }
    let mut miri = serde_json::json!(null);
    if thorough && violations == 0 {
        miri = run_miri();
        if miri["failed"].as_bool().unwrap_or(false) {
            violations = 1;
            println!("VIOLATION property=C19 replay={}", miri["replay"].as_str().unwrap_or("(miri seed in evidence)"));
            println!("  {}", miri["detail"].as_str().unwrap_or(""));
        }
    }
    let wall = start.elapsed().as_secs_f64();
    if samples.is_empty() {
        samples.push(serde_json::json!("no waiter parked in this batch"));
    }
    let evidence = serde_json::json!({
        "property_id": "C19", "tier": tier, "seed": verif_seed, "level": "exploration",
        "coverage": {
            "evaluations": executions,
            "distinct_nontrivial": nt.len(),
            "rule": "one evaluation = one generated scenario (limits, initial occupancy, 1-3 waiters, 1-3 mutator programs of inc/dec, all drawn from shuttle's PRNG) executed under one schedule chosen by a seeded shuttle scheduler (random / PCT depth 1-5) with a scheduling point between every pair of atomic / Notify operations of the real FlowControl; non-trivial = at least one waiter really parked (its first poll returned Pending); distinct = distinct (scenario, sequence of (thread, sync point)) fingerprints among those",
            "samples": samples,
            "executions_by_scheduler": by_sched,
            "distinct_interleavings_all": all.len(),
            "parked_waiters": parked,
            "scenarios_with_parked_waiter": nontrivial,
            "sync_points_reached": sync_points,
            "runs_per_s": executions as f64 / wall.max(0.001),
            "seeds_per_hour": executions as f64 / wall.max(0.001) * 3600.0,
            "fault_kinds": {"thread_preemption_at_sync_point": sync_points},
            "miri": miri,
            "real_components": ["deltio::subscriptions::flow_control (from /repo working tree, --cfg deltio_verif)", "tokio::sync::Notify"],
            "stubbed_components": ["OS threads and their scheduler (shuttle continuations, one runs at a time)", "no tokio runtime: futures are driven by shuttle::future::block_on"],
            "exhaustive": false
        },
        "assumptions": ["sequentially consistent interleavings at sync-point granularity (shuttle); weak-memory effects only in the Miri pass of the thorough tier"],
        "wall_s": wall,
        "violations": violations
    });
    let _ = std::fs::create_dir_all(format!("{}/evidence", verif_dir()));
    std::fs::write(format!("{}/evidence/C19.json", verif_dir()), serde_json::to_string_pretty(&evidence).unwrap()).expect("write evidence");
    println!("C19 tier={tier} executions={executions} nontrivial_distinct={} distinct_all={} parked_waiters={parked} violations={violations} wall={wall:.1}s", nt.len(), all.len());
    if executions == 0 {
        return 2;
    }
    violations
}

/// Thorough tier: the same kind of scenario on real std threads under Miri (preemption at
/// arbitrary basic blocks, weak-memory emulation, deadlock detection), many seeds.
fn run_miri() -> serde_json::Value {
    let seeds = std::env::var("C19_MIRI_SEEDS").ok().and_then(|s| s.parse::<u32>().ok()).unwrap_or(96);
    let start = std::time::Instant::now();
    let out = std::process::Command::new("cargo")
        .args(["+nightly", "miri", "run", "--offline", "-q"])
        .current_dir(format!("{}/fc-miri", verif_dir()))
        .env("MIRIFLAGS", format!("-Zmiri-many-seeds=0..{seeds} -Zmiri-preemption-rate=0.1 -Zmiri-disable-isolation"))
        .env("CARGO_NET_OFFLINE", "true")
        .output();
    match out {
        Err(e) => serde_json::json!({"ran": false, "error": e.to_string()}),
        Ok(o) => {
            let stderr = String::from_utf8_lossy(&o.stderr).to_string();
            let stdout = String::from_utf8_lossy(&o.stdout).to_string();
            let failed = !o.status.success();
            let detail: String = stderr.lines().filter(|l| l.contains("error") || l.contains("C19") || l.contains("deadlock") || l.contains("seed")).take(6).collect::<Vec<_>>().join(" / ");
            serde_json::json!({"ran": true, "seeds": seeds, "failed": failed, "wall_s": start.elapsed().as_secs_f64(), "scenarios_per_seed": stdout.lines().filter(|l| l.starts_with("miri-scenarios")).count(), "detail": detail.chars().take(800).collect::<String>(), "replay": "cd /verif/fc-miri && MIRIFLAGS=-Zmiri-seed=<n from detail> cargo +nightly miri run --offline"})
        }
    }
}

fn replay(args: &[String]) -> i32 {
    let file = match arg(args, "--file") {
        Some(f) => f.to_string(),
        None => return 2,
    };
    deltio::verif::install(Box::new(Hooks));
    static LAST_PANIC: Mutex<String> = Mutex::new(String::new());
    std::panic::set_hook(Box::new(|info| {
        let mut m = LAST_PANIC.lock().unwrap_or_else(|e| e.into_inner());
        if m.is_empty() || info.to_string().contains("C19.") || info.to_string().contains("deadlock") {
            *m = info.to_string();
        }
    }));
    let f2 = file.clone();
    let r = std::panic::catch_unwind(move || shuttle::replay_from_file(scenario, &f2));
    let msg = LAST_PANIC.lock().unwrap_or_else(|e| e.into_inner()).clone();
    match r {
        Err(_) if msg.contains("C19.") || msg.contains("deadlock") => {
            println!("VIOLATION property=C19 replay={file}");
            let what = if msg.contains("deadlock") { "C19.lost: a waiter stayed parked although capacity was freed (shuttle reports the deadlock)".to_string() } else { msg.chars().take(500).collect() };
            println!("  reproduced: {what}");
            1
        }
        Err(_) => {
            // The recorded schedule does not fit the code any more (different scheduling points):
            // the failure it recorded does not occur on this tree.
            println!("NOT-REPRODUCED property=C19 replay={file} (the schedule does not apply to this tree: {})", msg.lines().next().unwrap_or("").chars().take(200).collect::<String>());
            0
        }
        Ok(_) => {
            println!("NOT-REPRODUCED property=C19 replay={file}");
            0
        }
    }
}

fn main() {
    let args: Vec<String> = std::env::args().collect();
    let code = match args.get(1).map(|s| s.as_str()) {
        Some("run") => parent(&args[2..]),
        Some("worker") => worker(&args[2..]),
        Some("replay") => replay(&args[2..]),
        _ => {
            eprintln!("usage: fc-shuttle run --tier quick|thorough | worker ... | replay --file <schedule>");
            2
        }
    };
    std::process::exit(code);
}
