#!/bin/bash
# usage: tools_runseeded.sh <seeded-id> <check> [tier] [budget]
# Applies /verif/seeded/<id>/patch.diff to /repo (uncommitted), runs the check, reverts.
set -u
ID="$1"; CHECK="$2"; TIER="${3:-quick}"; BUDGET="${4:-60}"
cd /repo || exit 2
git diff --quiet || { echo "repo dirty"; exit 2; }
git apply "/verif/seeded/$ID/patch.diff" 2>/dev/null || git apply --3way "/verif/seeded/$ID/patch.diff" || exit 2
cd /verif && ./check "$CHECK" --tier "$TIER" --budget-s "$BUDGET" 2>&1 | grep -E "VIOLATION|rule=|KNOWN|runs=|HARNESS|C19" | cut -c1-400 | head -8
echo "exit=${PIPESTATUS[0]}"
cd /repo && git reset -q --hard HEAD
