#!/usr/bin/env python3
import json,sys,subprocess
f=sys.argv[1]
r=json.load(open(f))
print(r['rule'],r['key']); print(r['detail'][:600])
print('knobs',json.dumps(r['plan']['knobs']),'tags',r['plan'].get('tags'))
for i,ph in enumerate(r['plan']['phases']):
    print('PHASE',i,'adv',ph.get('advance_us'),'audit',ph.get('audit'))
    for j,sc in enumerate(ph['scripts']):
        for st in sc: print('   c%d'%(j+1),json.dumps(st)[:300])
if len(sys.argv)>2:
    out=subprocess.run(['/verif/sim/target/debug/deltio-sim','run','--check',r['check'],'--plan',f,'--dump-log'],capture_output=True,text=True).stdout
    rr=json.loads(out)
    for e in rr['log']: print(e['seq'],e['t_us'],e['client'],json.dumps(e['ev'])[:int(sys.argv[2])])
