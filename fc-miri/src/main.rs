//! C19 under Miri: the real flow_control.rs (included by path from /repo; the deltio crate itself
//! cannot run under Miri because of its mimalloc global allocator) on std threads. Miri's
//! -Zmiri-many-seeds varies the schedule (preemption at arbitrary basic blocks), emulates weak
//! memory for the Acquire/AcqRel accesses and detects deadlocks (a waiter that is never woken).
#![allow(dead_code)]
#[path = "/repo/src/subscriptions/flow_control.rs"]
mod flow_control;

/// flow_control.rs calls `crate::verif::sync_point` when built with --cfg deltio_verif.
mod verif {
    pub fn sync_point(_site: &'static str) {
        std::thread::yield_now();
    }
}

use flow_control::FlowControl;
use std::sync::atomic::{AtomicU64, Ordering};
use std::sync::{Arc, Mutex};

struct Rng(u64);
impl Rng {
    fn next(&mut self) -> u64 {
        self.0 = self.0.wrapping_add(0x9E37_79B9_7F4A_7C15);
        let mut z = self.0;
        z = (z ^ (z >> 30)).wrapping_mul(0xBF58_476D_1CE4_E5B9);
        z = (z ^ (z >> 27)).wrapping_mul(0x94D0_49BB_1331_11EB);
        z ^ (z >> 31)
    }
    fn range(&mut self, lo: u64, hi: u64) -> u64 {
        lo + self.next() % (hi - lo + 1)
    }
}

#[derive(Clone, Debug)]
struct OpRec {
    inc: bool,
    bytes: u64,
    msgs: u64,
    inv: u64,
    ret: u64,
}

fn scenario(seed: u64) {
    let mut rng = Rng(seed.wrapping_mul(0xD1B5_4A32_D192_ED03));
    let max_msgs = rng.range(1, 3);
    let max_bytes = [8u64, 16, 1 << 40][rng.range(0, 2) as usize];
    let fc: Arc<FlowControl> = Arc::new(flow_control::create(max_bytes, max_msgs));
    let init_msgs = rng.range(0, max_msgs + 1);
    let init_bytes = [0, max_bytes.min(64), (max_bytes / 2).min(64)][rng.range(0, 2) as usize];
    let n_waiters = rng.range(1, 2) as usize;
    let n_mutators = rng.range(1, 2) as usize;
    let mut programs: Vec<Vec<(bool, u64, u64)>> = Vec::new();
    for mi in 0..n_mutators {
        let mut prog = Vec::new();
        let (mut hb, mut hm) = if mi == 0 { (init_bytes, init_msgs) } else { (0, 0) };
        for _ in 0..rng.range(0, 2) {
            if rng.next() % 2 == 0 {
                let (b, m) = (rng.range(0, max_bytes.min(16)), rng.range(0, 2));
                prog.push((true, b, m));
                hb += b;
                hm += m;
            } else if hb > 0 || hm > 0 {
                let b = if hb > 0 { rng.range(0, hb) } else { 0 };
                let m = if hm > 0 { rng.range(0, hm) } else { 0 };
                prog.push((false, b, m));
                hb -= b;
                hm -= m;
            }
        }
        if hb > 0 || hm > 0 {
            prog.push((false, hb, hm));
        }
        // an acknowledgement accounted before its delivery: the decrement first (the counters
        // wrap and look full), the matching increment later
        if rng.next() % 4 == 0 {
            let (b, m) = (rng.range(0, max_bytes.min(16)), rng.range(1, 2));
            let at = rng.range(0, prog.len() as u64) as usize;
            prog.insert(at, (false, b, m));
            let back = rng.range(at as u64 + 1, prog.len() as u64) as usize;
            prog.insert(back, (true, b, m));
        }
        programs.push(prog);
    }
    fc.inc(init_bytes, init_msgs);
    let seq = Arc::new(AtomicU64::new(1));
    let ops: Arc<Mutex<Vec<OpRec>>> = Arc::new(Mutex::new(Vec::new()));
    let waits: Arc<Mutex<Vec<(u64, u64)>>> = Arc::new(Mutex::new(Vec::new()));
    let mut handles = Vec::new();
    for _ in 0..n_waiters {
        let (fc, seq, waits) = (fc.clone(), seq.clone(), waits.clone());
        handles.push(std::thread::spawn(move || {
            let start = seq.fetch_add(1, Ordering::SeqCst);
            futures::executor::block_on(fc.wait_for_available_space());
            let end = seq.fetch_add(1, Ordering::SeqCst);
            waits.lock().unwrap().push((start, end));
        }));
    }
    for prog in programs.iter().cloned() {
        let (fc, seq, ops) = (fc.clone(), seq.clone(), ops.clone());
        handles.push(std::thread::spawn(move || {
            for (inc, b, m) in prog {
                let inv = seq.fetch_add(1, Ordering::SeqCst);
                if inc {
                    fc.inc(b, m);
                } else {
                    fc.dec(b, m);
                }
                let ret = seq.fetch_add(1, Ordering::SeqCst);
                ops.lock().unwrap().push(OpRec { inc, bytes: b, msgs: m, inv, ret });
            }
        }));
    }
    // C19.lost / C19.all: a waiter that is never released is a deadlock, which Miri reports.
    for h in handles {
        h.join().unwrap();
    }
    let ops = ops.lock().unwrap().clone();
    for (start, end) in waits.lock().unwrap().iter() {
        let (mut lo_m, mut lo_b) = (init_msgs as i128, init_bytes as i128);
        for o in ops.iter() {
            if o.inc && o.ret < *start {
                lo_m += o.msgs as i128;
                lo_b += o.bytes as i128;
            }
            if !o.inc && o.inv < *end {
                lo_m -= o.msgs as i128;
                lo_b -= o.bytes as i128;
            }
        }
        assert!(lo_m < max_msgs as i128 && lo_b < max_bytes as i128, "C19.spurious: waiter resumed with msgs>={lo_m} (max {max_msgs}) bytes>={lo_b} (max {max_bytes}); ops={ops:?}");
    }
    assert!(fc.has_available_space());
}

fn main() {
    let n: u64 = std::env::args().nth(1).and_then(|s| s.parse().ok()).unwrap_or(4);
    for s in 0..n {
        scenario(s);
    }
    println!("miri-scenarios {n} ok");
}
