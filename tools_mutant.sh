#!/bin/bash
# usage: tools_mutant.sh <check> <file> <python-replace-old> <python-replace-new>
# Applies a one-off textual mutation to /repo (uncommitted), runs the quick check, reverts.
set -u
CHECK="$1"; FILE="$2"; OLD="$3"; NEW="$4"
cd /repo || exit 2
git diff --quiet || { echo "repo dirty"; exit 2; }
python3 - "$FILE" "$OLD" "$NEW" <<'PY'
import sys
p,old,new=sys.argv[1:4]
s=open(p).read()
assert s.count(old)>=1, "pattern not found"
open(p,'w').write(s.replace(old,new,1))
PY
[ $? -ne 0 ] && { git checkout -- .; exit 2; }
if [ "${RUN_TESTS:-0}" = "1" ]; then cargo test --offline 2>&1 | grep -E "^test result: F|FAILED|failed" | head -5; fi
cd /verif && ./check "$CHECK" --tier quick --budget-s ${BUDGET:-40} 2>&1 | grep -E "VIOLATION|rule=|KNOWN|runs=|HARNESS" | cut -c1-420 | head -8
echo "exit=${PIPESTATUS[0]}"
cd /repo && git checkout -- . 
